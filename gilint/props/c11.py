"""C11 — comment parsing never aborts, and its diagnostics point at the source."""
import ast

from ..core import AnalysisError
from .. import pyfront as P
from .. import pycfg
from .. import rx

EXPLANATION = ('Static rules over giscanner/annotationparser.py, message.py and scannermain.py: every named-group '
               'reference exists in every pattern whose match can reach it (reaching definitions over a CFG); a match '
               'result is dereferenced only under a truth test of that same match or when the pattern is TOTAL on lines '
               '(automaton universality); annotation validators exist for every valid annotation and every valid '
               'annotation is known to the option parser; catch-all around each block; coordinate frames of caret '
               'diagnostics (original vs asterisk-stripped line) agree outside the deprecated tag branch; positions are '
               'propagated by copies; every diagnostic is counted before any suppression; malformed annotations are '
               'all-or-nothing.')

MATCH_METHODS = ('match', 'search', 'fullmatch')


def regex_table(py, m):
    """module-level NAME = re.compile(pattern, flags) -> {NAME: (pattern, flags, groupnames)}"""
    out = {}
    for name, vals in m.assigns.items():
        if len(vals) == 1 and isinstance(vals[0], ast.Call) and P.call_name(vals[0]) == 're.compile':
            c = vals[0]
            try:
                pat = py.fold(c.args[0], m)
                flags = py.fold(c.args[1], m) if len(c.args) > 1 else 0
            except P.Unfoldable as e:
                raise AnalysisError('cannot fold pattern %s: %s' % (name, e))
            try:
                tree = rx.parse(pat, flags)
            except rx.RxError as e:
                raise AnalysisError('%s: %s' % (name, e))
            out[name] = (pat, int(flags), set(tree.state.groupdict), c.lineno)
    return out


def truth_test_of(test, var):
    """does `test` (with polarity True) imply that `var` is a match object (truthy)?"""
    t = P.src(test)
    if t in (var, '%s is not None' % var, 'bool(%s)' % var):
        return True
    if isinstance(test, ast.BoolOp) and isinstance(test.op, ast.And):
        return any(truth_test_of(v, var) for v in test.values)
    return False


def false_test_of(test, var):
    """does `test` being False imply var truthy?  (`not var`, `var is None`)"""
    t = P.src(test)
    if t in ('not %s' % var, '%s is None' % var):
        return True
    if isinstance(test, ast.BoolOp) and isinstance(test.op, ast.Or):
        return any(false_test_of(v, var) for v in test.values)
    return False


def contains(outer, inner):
    return any(x is inner for x in ast.walk(outer))


def check(ctx):
    py = ctx.py
    m = py.mod('annotationparser')
    rel = m.rel
    regexes = regex_table(py, m)

    # ------------------------------------------------------------------ R1 / R2
    r1 = ctx.rule('R1', 'named groups referenced on a match object exist in every pattern that can reach the reference', floor=50)
    r2 = ctx.rule('R2', 'match results dereferenced only under a truth test of the same match, or the pattern is total on lines', floor=50)
    total_cache = {}

    def is_total(rname):
        if rname not in total_cache:
            pat, flags, groups, ln = regexes[rname]
            try:
                lang = rx.Language(pat, flags, 'match')
                total_cache[rname] = rx.universal(lang)
            except rx.RxError as e:
                raise AnalysisError('%s: cannot decide totality: %s' % (rname, e))
        return total_cache[rname]

    funcs = []
    for cname, c in m.classes.items():
        for st in c.body:
            if isinstance(st, ast.FunctionDef):
                funcs.append(('%s.%s' % (cname, st.name), st))
    for fname, st in m.functions.items():
        funcs.append((fname, st))
    for qual, f in funcs:
        uses = []
        for n in P.walk_no_nested(f):
            if isinstance(n, ast.Call) and isinstance(n.func, ast.Attribute) and n.func.attr in ('group', 'start', 'end', 'span', 'groups', 'groupdict') \
                    and isinstance(n.func.value, ast.Name):
                uses.append(n)
        if not uses:
            continue
        cfg = pycfg.CFG(f)
        defs_cache = {}
        for u in sorted(uses, key=lambda n: (n.lineno, n.col_offset)):
            var = u.func.value.id
            if var not in defs_cache:
                defs_cache[var] = pycfg.def_nodes(cfg, var)
            rd = pycfg.reaching_defs(cfg, u.func.value, var, defs_cache[var])
            match_defs = []
            opaque = False
            for d in rd:
                val = defs_cache[var].get(d) if d != pycfg.ENTRY else None
                if isinstance(val, ast.Call) and isinstance(val.func, ast.Attribute) and val.func.attr in MATCH_METHODS \
                        and isinstance(val.func.value, ast.Name) and val.func.value.id in regexes:
                    match_defs.append((d, val.func.value.id, val.func.attr))
                else:
                    opaque = True
            if not match_defs:
                continue      # not a regex match object of a module-level pattern (e.g. namedtuple result)
            construct = '%s: %s' % (qual, P.src(u))
            # R1
            if u.args and isinstance(u.args[0], ast.Constant) and isinstance(u.args[0].value, str):
                g = u.args[0].value
                missing = sorted(set(r for d, r, meth in match_defs if g not in regexes[r][2]))
                r1.check(not missing, construct, rel, u.lineno,
                         'group %r does not exist in %s, whose match can reach this reference: would raise IndexError'
                         % (g, missing), detail={'patterns': sorted(set(r for d, r, meth in match_defs))})
            else:
                r1.ok(construct, rel, u.lineno, detail='positional/whole-match reference')
            # R2
            gl = P.guards(u)
            for d, rname, meth in match_defs:
                protected = False
                for g in gl:
                    if g.kind not in ('if', 'early', 'while'):
                        continue
                    ok = (g.polarity and truth_test_of(g.test, var)) or ((not g.polarity) and false_test_of(g.test, var))
                    if not ok:
                        continue
                    origin = g.origin
                    # the definition must lie outside (before) the guarded region and reach the test
                    if contains(origin, d) and not (isinstance(origin, (ast.If, ast.While)) and contains(origin.test, d)):
                        # definition inside the guarded statement: only fine if it precedes... it does not protect
                        if g.kind != 'early':
                            continue
                        continue
                    tnode = cfg.node_of(g.test)
                    if tnode is None:
                        continue
                    others = [x for x in defs_cache[var] if x is not d]
                    if d is tnode or cfg.reaches(d, tnode, avoiding=others):
                        protected = True
                        break
                if protected:
                    r2.ok(construct, rel, u.lineno, detail='guarded by truth test of %s.%s()' % (rname, meth))
                    continue
                if meth != 'match':
                    r2.fail(construct, rel, u.lineno, '%s.%s() result used without a test' % (rname, meth))
                    continue
                cex = is_total(rname)
                r2.check(cex is None, construct, rel, u.lineno,
                         'result of %s.match() is dereferenced without a truth test and the pattern is not total: it '
                         'does not match the line %r, so `None.%s` would raise AttributeError' % (rname, cex, u.func.attr),
                         detail='unguarded; %s is total on newline-free strings (automaton universality)' % rname)
    r2.exhaustive = True

    # ------------------------------------------------------------------ R3 dispatch exhaustive + vocabulary known
    r3 = ctx.rule('R3', 'every valid annotation has a validator and is known to the option parser', floor=40)
    all_ann = py.fold_name(m, 'ALL_ANNOTATIONS')
    list_ann = py.fold_name(m, 'LIST_ANNOTATIONS')
    dict_ann = py.fold_name(m, 'DICT_ANNOTATIONS')
    base_methods = py.methods('annotationparser', 'GtkDocAnnotatable')
    for cname in ('GtkDocParameter', 'GtkDocTag', 'GtkDocCommentBlock'):
        mm, val = py.class_attr('annotationparser', cname, 'valid_annotations')
        names = py.fold(val, mm)
        methods = py.methods('annotationparser', cname)
        for a in names:
            meth = '_do_validate_' + a.replace('-', '_')
            fd = methods.get(meth)
            r3.check(fd is not None and len(fd.args.args) == 4, '%s validator for "%s"' % (cname, a), rel,
                     fd.lineno if fd is not None else val.lineno,
                     'valid annotation "%s" of %s has no %s(position, ann_name, options): validate() would raise AttributeError' % (a, cname, meth))
            r3.check(a in all_ann and (a in list_ann or a in dict_ann), 'annotation "%s" known to the option parser' % a, rel, val.lineno,
                     'annotation "%s" is valid on %s but missing from ALL_ANNOTATIONS (GI_ANNS): its options are parsed by '
                     '_parse_annotation_options_unknown, which yields None for "(%s)" without options, and the validator '
                     'then raises TypeError (len(None)) — the whole comment block is lost with an "unrecoverable parse error"'
                     % (a, cname, a))
    # the dispatch expression itself
    val_f = py.func('annotationparser', 'GtkDocAnnotatable.validate')
    ga = [c for c in P.calls_in(val_f) if P.call_name(c) == 'getattr']
    r3.check(len(ga) == 1 and P.src(ga[0].args[1]) == "'_do_validate_' + ann_name.replace('-', '_')" and
             any('ann_name in self.valid_annotations' == g.text() for g in P.guards(ga[0])), 'validator dispatch', rel, val_f.lineno,
             'validate() does not dispatch valid annotations to _do_validate_<name>')
    # option-less unknown annotation: _parse_annotation_options_unknown may return None only for names outside valid sets
    unk = py.func('annotationparser', 'GtkDocCommentBlockParser._parse_annotation_options_unknown')
    implicit_none = not P.always_exits(unk.body[-1:]) if unk.body else True
    ctx.notes.append('_parse_annotation_options_unknown can return None: %s' % implicit_none)

    # ------------------------------------------------------------------ R4 catch-all
    r4 = ctx.rule('R4', 'each block parsed under try/except Exception -> error(file,line) and continue', floor=3)
    pcb = py.func('annotationparser', 'GtkDocCommentBlockParser.parse_comment_blocks')
    calls = [c for c in P.calls_in(pcb) if P.call_name(c) == 'self.parse_comment_block']
    if len(calls) != 1:
        raise AnalysisError('parse_comment_blocks: call to parse_comment_block not found')
    tr = None
    n = P.parent(calls[0])
    while n is not None and n is not pcb:
        if isinstance(n, ast.Try) and any(contains(b, calls[0]) for b in n.body):
            tr = n
            break
        n = P.parent(n)
    loop = [x for x in P.walk_no_nested(pcb) if isinstance(x, ast.For)]
    ok = tr is not None and len(loop) == 1 and contains(loop[0], tr)
    r4.check(ok, 'parse_comment_block inside try within the loop', rel, calls[0].lineno, 'no try block around the per-block parse')
    if tr is not None:
        hs = [h for h in tr.handlers if h.type is None or P.src(h.type) in ('Exception', 'BaseException')]
        r4.check(len(hs) >= 1, 'handler catches Exception', rel, tr.lineno, 'handlers: %s' % [P.src(h.type) for h in tr.handlers if h.type is not None])
        for h in hs:
            errs = [c for c in ast.walk(h) if isinstance(c, ast.Call) and P.call_name(c) in ('error', 'warn')]
            pos_ok = any(len(c.args) >= 2 and P.src(c.args[1]) == 'Position(filename, lineno)' for c in errs)
            cont = isinstance(h.body[-1], ast.Continue)
            r4.check(pos_ok and cont, 'handler reports position and continues', rel, h.lineno,
                     'handler does not report through error(..., Position(filename, lineno)) and continue with the next block')
        tgt = loop[0].target
        r4.check(P.src(tgt) == '(comment, filename, lineno)' and [P.src(a) for a in calls[0].args] == ['comment', 'filename', 'lineno'],
                 'block coordinates passed through', rel, calls[0].lineno, 'parse_comment_block(%s)' % [P.src(a) for a in calls[0].args])

    # ------------------------------------------------------------------ R5 coordinate frames and positions
    r5 = ctx.rule('R5', 'caret column and quoted line are in the same coordinate frame; positions carry file and running line', floor=30)
    f = py.func('annotationparser', 'GtkDocCommentBlockParser.parse_comment_block')
    cfg = pycfg.CFG(f)
    # the main loop
    main = [n for n in f.body if isinstance(n, ast.For) and P.src(n.iter) == 'comment_lines']
    if len(main) != 1 or not isinstance(main[0].target, ast.Name):
        raise AnalysisError('parse_comment_block: `for line in comment_lines` not found')
    loop = main[0]
    lv = loop.target.id
    body0 = [P.src(s) for s in loop.body[:2]]
    r5.check(body0 == ['lineno += 1', 'position = Position(filename, lineno)'], 'running line number', rel, loop.lineno,
             'loop does not start with `lineno += 1; position = Position(filename, lineno)`: %s' % body0, detail=body0)
    # how the comment is split into lines
    cl = [v for t, v, st in P.stores_in(f) if isinstance(t, ast.Name) and t.id == 'comment_lines' and isinstance(st, ast.Assign)]
    if len(cl) != 1:
        raise AnalysisError('comment_lines is assigned %d times' % len(cl))
    sp = cl[0]
    if isinstance(sp, ast.Call) and isinstance(sp.func, ast.Attribute) and sp.func.attr == 'splitlines':
        r5.fail('lines split at line terminators only', rel, sp.lineno,
                'str.splitlines() also splits at \\f \\v \\x1c-\\x1e \\x85 \\u2028 \\u2029: every later diagnostic names a line '
                'number larger than the source line the text stands on (and "" yields no lines at all)')
    elif isinstance(sp, ast.Call) and isinstance(sp.func, ast.Attribute) and sp.func.attr == 'split' and \
            [py.try_fold(a, m) for a in sp.args] == ['\n']:
        inner = sp.func.value
        ok = P.src(inner) == 'comment'
        if isinstance(inner, ast.Call) and P.call_name(inner) == 're.sub':
            pat = inner.args[0]
            pname = pat.id if isinstance(pat, ast.Name) else None
            if pname in regexes:
                try:
                    got = rx.Language(regexes[pname][0], regexes[pname][1], 'fullmatch')
                    ref = rx.Language('\r\n|\r|\n', 0, 'fullmatch')
                    ok = rx.compare(got, ref) is None and py.try_fold(inner.args[1], m) == '\n' and P.src(inner.args[2]) == 'comment'
                except rx.RxError as e:
                    raise AnalysisError(str(e))
        r5.check(ok, 'lines split at line terminators only', rel, sp.lineno,
                 'comment text is not split exactly at CRLF / CR / LF: %s' % P.src(sp), detail=P.src(sp))
    else:
        raise AnalysisError('comment_lines = %s: unrecognised way of splitting the block into lines' % P.src(sp))
    # strip statement: line = line[result.end(0):] together with column_offset = result.end(0)
    strip = [st for t, v, st in P.stores_in(loop) if isinstance(t, ast.Name) and t.id == lv and isinstance(v, ast.Subscript)]
    if len(strip) != 1:
        raise AnalysisError('asterisk strip `line = line[...]` not found')
    strip = strip[0]
    blk = P.block_of(strip)[2]
    texts = [P.src(s) for s in blk]
    sl = strip.value.slice
    lower = P.src(sl.lower) if isinstance(sl, ast.Slice) and sl.upper is None and sl.step is None and sl.lower is not None else None
    r5.check(lower is not None and ('column_offset = %s' % lower) in texts and P.src(strip.value.value) == lv, 'column_offset = length stripped',
             rel, strip.lineno, 'the number of characters removed in front of the line is not what column_offset records: %s' % texts,
             detail=texts[-2:])
    co_defs = [P.src(v) for t, v, st in P.stores_in(loop) if isinstance(t, ast.Name) and t.id == 'column_offset']
    r5.check(sorted(co_defs) == sorted(['0', lower or '?']) and 'column_offset = 0' in [P.src(s) for s in loop.body[:5]] and
             'original_line = %s' % lv in [P.src(s) for s in loop.body[:5]],
             'column_offset / original_line reset per line', rel, loop.lineno, 'column_offset defs: %s' % co_defs)
    line_defs = pycfg.def_nodes(cfg, lv)
    frame_preserving = [d for d, v in line_defs.items() if isinstance(v, ast.Call) and isinstance(v.func, ast.Attribute)
                        and v.func.attr == 'rstrip' and P.src(v.func.value) == lv]

    def line_frame(node):
        """frame of the variable `line` at `node`: 'orig' before the strip statement, 'stripped' after"""
        rd = pycfg.reaching_defs(cfg, node, lv, line_defs)
        rd = set(rd)
        # look through rstrip (prefix preserving)
        changed = True
        while changed:
            changed = False
            for d in list(rd):
                if d in frame_preserving:
                    rd.discard(d)
                    rd |= pycfg.reaching_defs(cfg, d.value, lv, line_defs)
                    changed = True
        if strip in rd:
            return 'stripped'
        if rd and all(d is loop.iter for d in rd):
            # the strip block has not been executed on this path or cannot reach: are we before it?
            if cfg.reaches(strip, cfg.node_of(node)) and not cfg.dominates(cfg.node_of(node), strip):
                return 'stripped'      # strip was conditional (no asterisk): column_offset == 0, same invariant
            return 'orig'
        return '?'

    def string_frame(e, at):
        t = P.src(e)
        if t == 'original_line':
            return 'orig'
        if t == lv:
            return line_frame(at)
        if t.startswith('comment_lines['):
            return t
        return '?:' + t

    local = P.local_defs(f)

    def col_frame(e, at, depth=0):
        """frame of an integer column expression"""
        t = P.src(e)
        if depth > 4:
            return '?'
        if t == 'column_offset':
            return 'orig'
        if isinstance(e, ast.BinOp) and isinstance(e.op, ast.Add):
            l, r_ = e.left, e.right
            if P.src(l) == 'column_offset':
                l, r_ = r_, l
            if P.src(r_) == 'column_offset':
                inner = col_frame(l, at, depth + 1)
                return 'orig' if inner == 'stripped' else 'bad(%s+column_offset)' % inner
            return '?'
        if isinstance(e, ast.Call) and isinstance(e.func, ast.Attribute) and e.func.attr in ('start', 'end') and isinstance(e.func.value, ast.Name):
            var = e.func.value.id
            dn = pycfg.def_nodes(cfg, var)
            frames = set()
            for d in pycfg.reaching_defs(cfg, e.func.value, var, dn):
                v = dn.get(d) if d != pycfg.ENTRY else None
                if isinstance(v, ast.Call) and isinstance(v.func, ast.Attribute) and v.func.attr in MATCH_METHODS and v.args:
                    frames.add(string_frame(v.args[0], v))
                else:
                    frames.add('?')
            return frames.pop() if len(frames) == 1 else 'mixed%s' % sorted(frames)
        if isinstance(e, ast.Name) and e.id in local:
            dn = pycfg.def_nodes(cfg, e.id)
            frames = set()
            guard_vars = [P.src(g.test) for g in P.guards(at) if g.kind == 'if' and g.polarity and isinstance(g.test, ast.Name)]
            for d in pycfg.reaching_defs(cfg, e, e.id, dn):
                if d == pycfg.ENTRY:
                    continue   # "unbound on some path" is not a coordinate-frame question
                v = dn.get(d)
                if isinstance(v, ast.Constant) and v.value is None:
                    # `x = None` next to `g = None` where the use is under `if g:` cannot reach the use with None
                    blk_ = P.block_of(d)
                    sib = [P.src(s_) for s_ in blk_[2]] if blk_ else []
                    if any('%s = None' % gv in sib for gv in guard_vars):
                        continue
                    frames.add('none')
                    continue
                frames.add(col_frame(v, v, depth + 1) if v is not None else '?')
            return frames.pop() if len(frames) == 1 else 'mixed%s' % sorted(frames)
        return '?'

    helpers = ('self._parse_annotations', 'self._parse_fields', 'self._parse_annotation', 'self._parse_annotation_options_list')
    sites = []
    for c in P.calls_in(f):
        nm = P.call_name(c)
        if nm in ('warn', 'error') and len(c.args) >= 5:
            sites.append((c, c.args[3], c.args[4], nm))
        elif nm in helpers and len(c.args) >= 3:
            sites.append((c, c.args[1], c.args[2], nm))
    n_exempt = 0
    for c, col, line_e, nm in sites:
        gs = [g.text() for g in P.guards(c)]
        deprecated = any('DEPRECATED_GI_ANN_TAGS' in g and not g.startswith('not') for g in gs)
        cf = col_frame(col, c)
        lf = string_frame(line_e, c)
        construct = '%s(%s, %s)' % (nm, P.src(col), P.src(line_e))
        if deprecated:
            n_exempt += 1
            continue
        r5.check(cf == lf and not cf.startswith('?') and not cf.startswith('bad') and not cf.startswith('mixed'), construct, rel, c.lineno,
                 'caret column is in frame %r but the quoted line is in frame %r: the caret does not point at the offending text '
                 '(original line vs line with the leading " * " removed)' % (cf, lf), detail={'column': cf, 'line': lf})
    ctx.notes.append('R5: %d diagnostic sites under the deprecated tag-style branch exempted (as the property states)' % n_exempt)
    # helpers pass (column, line) through unchanged in frame
    for hn in ('_parse_annotations', '_parse_fields', '_parse_annotation', '_parse_annotation_options_list'):
        hf = py.func('annotationparser', 'GtkDocCommentBlockParser.' + hn)
        params = [a.arg for a in hf.args.args]
        if 'column' not in params or 'line' not in params:
            raise AnalysisError('%s lost its (column, line) parameters' % hn)
        for c in P.calls_in(hf):
            nm = P.call_name(c)
            col = line_e = None
            if nm in ('warn', 'error') and len(c.args) >= 5:
                col, line_e = c.args[3], c.args[4]
            elif nm in helpers and len(c.args) >= 3:
                col, line_e = c.args[1], c.args[2]
            if col is None:
                continue
            names = P.names_in(col)
            derived = 'column' in names
            if not derived:
                # locals derived from column (marker_pos = column + ...)
                for nme in names:
                    for v in P.local_defs(hf).get(nme, []):
                        if v is not None and 'column' in P.names_in(v):
                            derived = True
            r5.check(derived and P.src(line_e) == 'line', '%s: %s(%s, %s)' % (hn, nm, P.src(col), P.src(line_e)), rel, c.lineno,
                     'helper does not pass the (column, line) pair it received: column=%s line=%s' % (P.src(col), P.src(line_e)))
    # every diagnostic in parse_comment_block carries a position built from filename + running lineno
    pos_defs = [P.src(v) for t, v, st in P.stores_in(f) if isinstance(t, ast.Name) and t.id in ('position', 'comment_block_pos')]
    r5.check(all(d.startswith('Position(filename, lineno') for d in pos_defs) and len(pos_defs) >= 6, 'positions built from (filename, lineno)', rel,
             f.lineno, 'position definitions: %s' % sorted(set(pos_defs)), detail=sorted(set(pos_defs)))
    for c in P.calls_in(f):
        if P.call_name(c) in ('warn', 'error'):
            r5.check(len(c.args) >= 2 and P.src(c.args[1]) == 'position', 'diagnostic carries position', rel, c.lineno,
                     'diagnostic without the current position: %s' % P.src(c)[:80])
    # end-of-block position arithmetic
    endpos = [d for d in pos_defs if 'comment_lines_len' in d]
    r5.check(endpos and all(d == 'Position(filename, lineno + comment_lines_len - 1)' for d in endpos), 'end token line', rel, f.lineno,
             'end-token diagnostics use %s' % endpos)
    # copies of annotation containers keep their position
    ann_cls = py.cls('annotationparser', 'GtkDocAnnotations')
    pa = py.func('annotationparser', 'GtkDocCommentBlockParser._parse_annotations')
    copies = [c for c in P.calls_in(pa) if isinstance(c.func, ast.Attribute) and c.func.attr == 'copy' and P.src(c.func.value) == 'annotations']
    meths = dict((s.name, s) for s in ann_cls.body if isinstance(s, ast.FunctionDef))
    slots = py.try_fold([s for s in ann_cls.body if isinstance(s, ast.Assign) and P.src(s.targets[0]) == '__slots__'][0].value, m)
    if copies:
        cp = meths.get('copy')
        keeps = cp is not None and ('position=self.position' in P.src(cp) or 'self.__copy__()' in P.src(cp))
        alias = [s for s in ann_cls.body if isinstance(s, ast.Assign) and P.src(s.targets[0]) == 'copy' and P.src(s.value) == '__copy__']
        keeps = keeps or (bool(alias) and '__copy__' in meths and 'position=self.position' in P.src(meths['__copy__']))
        r5.check(keeps, 'GtkDocAnnotations.copy() keeps position', rel, copies[0].lineno,
                 '_parse_annotations continues annotations on a following line via annotations.copy(); OrderedDict.copy() builds '
                 'self.__class__(self) and never calls __copy__, so the copy has position=None and validate() reports later '
                 'problems at "<unknown>:" instead of the file and line')
    else:
        r5.ok('no dict.copy() of annotation containers', rel, pa.lineno)

    # ------------------------------------------------------------------ R6 counted even when suppressed
    r6 = ctx.rule('R6', 'every diagnostic is counted before any suppression; helpers reach log(); warnings-as-errors consults the count', floor=8)
    mm = py.mod('message')
    log = py.func('message', 'MessageLogger.log')
    lcfg = pycfg.CFG(log)
    incs = [n for n in P.walk_no_nested(log) if isinstance(n, ast.AugAssign) and P.src(n.target) == 'self._warning_count']
    if len(incs) != 1:
        r6.fail('count increment', mm.rel, log.lineno, 'expected exactly one `self._warning_count += 1` in log(), found %d' % len(incs))
    else:
        inc = incs[0]
        gs = [g.text() for g in P.guards(inc)]
        r6.check(not gs and P.src(inc.value) == '1', 'count unconditional', mm.rel, inc.lineno,
                 'the diagnostic counter is incremented only when %s: other diagnostics (e.g. errors) are not counted and '
                 'warnings-as-errors lets the run succeed' % gs, detail='guards: none')
        for n in P.walk_no_nested(log):
            if isinstance(n, (ast.Return, ast.Raise)):
                r6.check(lcfg.dominates(inc, n), 'count before exit', mm.rel, n.lineno, 'log() can leave at line %d without counting' % n.lineno)
        outs = [c for c in P.calls_in(log) if P.src(c.func) == 'self._output.write']
        for o in outs:
            r6.check(lcfg.dominates(inc, lcfg.node_of(o)), 'count before output', mm.rel, o.lineno, 'output written before counting')
    # who writes the counter / output
    writers = []
    for mod in py.all_modules():
        for n in ast.walk(mod.tree):
            if isinstance(n, ast.Attribute) and n.attr == '_warning_count' and isinstance(n.ctx, ast.Store):
                fn = P.enclosing_function(n)
                writers.append((mod.rel, fn.name if fn else '?'))
    r6.check(sorted(set(writers)) == [(mm.rel, '__init__'), (mm.rel, 'log')], 'only log() updates the counter', mm.rel, 1, 'counter written from %s' % writers)
    gw = py.func('message', 'MessageLogger.get_warning_count')
    r6.check([P.src(s) for s in gw.body if not isinstance(s, ast.Expr)] == ['return self._warning_count'], 'get_warning_count returns the counter',
             mm.rel, gw.lineno, 'get_warning_count body changed')
    # module-level helpers reach log with their own level
    expect = {'warn': 'WARNING', 'error': 'ERROR', 'fatal': 'FATAL'}
    for hn, lvl in expect.items():
        hf = py.func('message', hn)
        lc = [c for c in P.calls_in(hf) if isinstance(c.func, ast.Attribute) and c.func.attr == 'log']
        ok = len(lc) == 1 and P.src(lc[0].args[0]) == lvl and not P.guards(lc[0]) and \
            [P.src(a) for a in lc[0].args[1:]] == ['text', 'positions', 'prefix', 'marker_pos', 'marker_line']
        r6.check(ok, '%s() -> log(%s) unconditionally with all arguments' % (hn, lvl), mm.rel, hf.lineno, '%s: %s' % (hn, [P.src(c) for c in lc]))
    ln = py.func('message', 'MessageLogger.log_node')
    lc = [c for c in P.calls_in(ln) if P.src(c.func) == 'self.log']
    r6.check(len(lc) == 1 and not [g for g in P.guards(lc[0])], 'log_node reaches log', mm.rel, ln.lineno, 'log_node does not always call log')
    # annotationparser's warn/error are message.warn/error
    r6.check(m.imports.get('warn') == ('message', 'warn') and m.imports.get('error') == ('message', 'error') and
             'warn' not in m.functions and 'error' not in m.functions, 'parser diagnostics go through the message log', rel, 1,
             'annotationparser warn/error are not giscanner.message.warn/error')
    # scanner_main: warn_fatal and count > 0 -> fatal
    sm = py.mod('scannermain')
    smf = py.func('scannermain', 'scanner_main')
    fat = [c for c in P.calls_in(smf) if P.call_name(c) == 'message.fatal']
    okf = False
    for c in fat:
        gs = [g.text() for g in P.guards(c) if g.kind == 'if']
        if any('options.warn_fatal' in g and 'warning_count > 0' in g for g in gs):
            okf = True
    wc = [P.src(v) for t, v, st in P.stores_in(smf) if isinstance(t, ast.Name) and t.id == 'warning_count']
    r6.check(okf and wc == ['logger.get_warning_count()'], 'warnings-as-errors fails when anything was diagnosed', sm.rel, smf.lineno,
             'scanner_main does not call message.fatal under `options.warn_fatal and warning_count > 0` (count=%s)' % wc)

    # ------------------------------------------------------------------ R7 all-or-nothing annotations
    r7 = ctx.rule('R7', 'a malformed annotation field yields no annotations at all; results applied only on success', floor=12)
    rets = [n for n in P.walk_no_nested(pa) if isinstance(n, ast.Return) and isinstance(n.value, ast.Call) and P.call_name(n.value) == '_ParseAnnotationsResult']
    fields = py.fold(m.assigns['_ParseAnnotationsResult'][0].args[1], m)
    si, ai = fields.index('success'), fields.index('annotations')
    n_fail = 0
    for rt in rets:
        a = rt.value.args
        if P.src(a[si]) == 'False':
            n_fail += 1
            r7.check(P.src(a[ai]) == 'None', 'failure result carries no annotations', rel, rt.lineno,
                     'failed parse returns annotations=%s' % P.src(a[ai]))
        # every error() in _parse_annotations about parentheses is followed by a failure return
    for c in P.calls_in(pa):
        if P.call_name(c) == 'error' and 'will be ignored' in (py.try_fold(c.args[0], m, '') or ''):
            st = P.enclosing_stmt(c)
            blk = P.block_of(st)
            nxt = blk[2][blk[3] + 1] if blk and blk[3] + 1 < len(blk[2]) else None
            ok = isinstance(nxt, ast.Return) and isinstance(nxt.value, ast.Call) and P.src(nxt.value.args[si]) == 'False'
            r7.check(ok, '"annotations will be ignored" is followed by a failure return', rel, c.lineno,
                     'error says the annotations will be ignored but parsing continues')
    r7.check(n_fail >= 4, 'failure returns present', rel, pa.lineno, 'only %d failure returns' % n_fail)
    # the working container never aliases the caller's live annotations
    wk = [(v, st) for t, v, st in P.stores_in(pa) if isinstance(t, ast.Name) and t.id == 'parsed_annotations' and isinstance(st, ast.Assign)]
    for v, st in wk:
        t = P.src(v)
        r7.check(t != 'annotations' and not (isinstance(v, ast.Name)), 'working copy', rel, st.lineno,
                 'parsed_annotations = %s aliases the live annotations object: annotations parsed before a later syntax error '
                 'stay applied although the error says they are ignored' % t, detail=t)
    mut = [st for t, v, st in P.stores_in(pa) if isinstance(t, ast.Subscript) and P.src(t.value) != 'parsed_annotations' and 'annotations' in P.src(t.value)]
    r7.check(not mut, 'only the working copy is mutated', rel, pa.lineno, 'mutation of %s' % [P.src(s) for s in mut])
    # call sites: `.annotations = X.annotations` only under X.success
    for fn in (f, py.func('annotationparser', 'GtkDocCommentBlockParser._parse_fields')):
        for t, v, st in P.stores_in(fn):
            if isinstance(t, ast.Attribute) and t.attr == 'annotations' and isinstance(v, ast.Attribute) and v.attr == 'annotations' \
                    and isinstance(v.value, ast.Name):
                rv = v.value.id
                gs = [g.text() for g in P.guards(st) if g.kind in ('if', 'early')]
                r7.check(any(g == '%s.success' % rv or g.startswith('%s.success and' % rv) for g in gs), 'applied only on success: %s' % P.src(st), rel, st.lineno,
                         'parse result applied without checking .success: guards=%s' % gs)
    pf = py.func('annotationparser', 'GtkDocCommentBlockParser._parse_fields')
    pfr = [n for n in P.walk_no_nested(pf) if isinstance(n, ast.Return)]
    r7.check(len(pfr) >= 1 and all(isinstance(n.value, ast.Call) and P.call_name(n.value) == '_ParseFieldsResult' for n in pfr), '_parse_fields returns result objects',
             rel, pf.lineno, '_parse_fields returns %s' % [P.src(n.value) for n in pfr])
    for n in pfr:
        a0 = P.src(n.value.args[0])
        r7.check(a0 in ('True', 'False', 'res.success', 'result.success') or a0.endswith('.success'), '_parse_fields propagates success', rel, n.lineno, 'success=%s' % a0)
