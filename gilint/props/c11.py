"""C11 — comment parsing never aborts, and its diagnostics point at the source."""
import ast
import re

from ..core import AnalysisError
from .. import pyfront as P
from .. import gsa
from .. import strfrag
from .. import pycfg
from .. import rx

EXPLANATION = ('Static rules over giscanner/annotationparser.py, message.py and scannermain.py: every named-group '
               'reference exists in every pattern whose match can reach it (reaching definitions over a CFG); a match '
               'result is dereferenced only under a truth test of that same match or when the pattern is TOTAL on lines '
               '(automaton universality); annotation validators exist for every valid annotation and every valid '
               'annotation is known to the option parser; catch-all around each block; coordinate frames of caret '
               'diagnostics (original vs asterisk-stripped line) agree outside the deprecated tag branch; positions are '
               'propagated by copies; every diagnostic is counted before any suppression; malformed annotations are '
               'all-or-nothing.')

MATCH_METHODS = ('match', 'search', 'fullmatch')


def regex_table(py, m):
    """module-level NAME = re.compile(pattern, flags) -> {NAME: (pattern, flags, groupnames)}"""
    out = {}
    for name, vals in m.assigns.items():
        if len(vals) == 1 and isinstance(vals[0], ast.Call) and P.call_name(vals[0]) == 're.compile':
            c = vals[0]
            try:
                pat = py.fold(c.args[0], m)
                flags = py.fold(c.args[1], m) if len(c.args) > 1 else 0
            except P.Unfoldable as e:
                raise AnalysisError('cannot fold pattern %s: %s' % (name, e))
            try:
                tree = rx.parse(pat, flags)
            except rx.RxError as e:
                raise AnalysisError('%s: %s' % (name, e))
            out[name] = (pat, int(flags), set(tree.state.groupdict), c.lineno)
    return out


def truth_test_of(test, var):
    """does `test` (with polarity True) imply that `var` is a match object (truthy)?"""
    t = P.src(test)
    if t in (var, '%s is not None' % var, 'bool(%s)' % var):
        return True
    if isinstance(test, ast.BoolOp) and isinstance(test.op, ast.And):
        return any(truth_test_of(v, var) for v in test.values)
    return False


def false_test_of(test, var):
    """does `test` being False imply var truthy?  (`not var`, `var is None`)"""
    t = P.src(test)
    if t in ('not %s' % var, '%s is None' % var):
        return True
    if isinstance(test, ast.BoolOp) and isinstance(test.op, ast.Or):
        return any(false_test_of(v, var) for v in test.values)
    return False


def contains(outer, inner):
    return any(x is inner for x in ast.walk(outer))


def check(ctx):
    py = ctx.py
    m = py.mod('annotationparser')
    rel = m.rel
    regexes = regex_table(py, m)

    # ------------------------------------------------------------------ R1 / R2
    r1 = ctx.rule('R1', 'named groups referenced on a match object exist in every pattern that can reach the reference', floor=25)
    r2 = ctx.rule('R2', 'match results dereferenced only under a truth test of the same match, or the pattern is total on lines', floor=25)
    total_cache = {}

    def is_total(rname):
        if rname not in total_cache:
            pat, flags, groups, ln = regexes[rname]
            try:
                lang = rx.Language(pat, flags, 'match')
                total_cache[rname] = rx.universal(lang)
            except rx.RxError as e:
                raise AnalysisError('%s: cannot decide totality: %s' % (rname, e))
        return total_cache[rname]

    n_unresolved = 0
    funcs = []
    for cname, c in m.classes.items():
        for st in c.body:
            if isinstance(st, ast.FunctionDef):
                funcs.append(('%s.%s' % (cname, st.name), st))
    for fname, st in m.functions.items():
        funcs.append((fname, st))
    for qual, f in funcs:
        uses = []
        for n in P.walk_no_nested(f):
            if isinstance(n, ast.Call) and isinstance(n.func, ast.Attribute) and n.func.attr in ('group', 'start', 'end', 'span', 'groups', 'groupdict') \
                    and isinstance(n.func.value, ast.Name):
                uses.append(n)
        if not uses:
            continue
        cfg = pycfg.CFG(f)
        defs_cache = {}
        for u in sorted(uses, key=lambda n: (n.lineno, n.col_offset)):
            var = u.func.value.id
            if var not in defs_cache:
                defs_cache[var] = pycfg.def_nodes(cfg, var)
            rd = pycfg.reaching_defs(cfg, u.func.value, var, defs_cache[var])
            match_defs = []
            opaque = False
            unresolved = False
            for d in rd:
                val = defs_cache[var].get(d) if d != pycfg.ENTRY else None
                if isinstance(val, ast.Call) and isinstance(val.func, ast.Attribute) and val.func.attr in MATCH_METHODS \
                        and isinstance(val.func.value, ast.Name) and val.func.value.id in regexes:
                    match_defs.append((d, val.func.value.id, val.func.attr))
                else:
                    opaque = True
                    if isinstance(val, ast.Call) and isinstance(val.func, ast.Attribute) and val.func.attr in MATCH_METHODS:
                        unresolved = True
            if not match_defs:
                continue      # not a regex match object of a module-level pattern (e.g. namedtuple result)
            if unresolved:
                # a match made through a pattern that is not a module-level constant (e.g. a loop over a table of patterns): which groups exist
                # depends on the row; nothing is decided for this reference (the instance floors guard against losing too many)
                n_unresolved += 1
                continue
            construct = '%s: %s' % (qual, P.src(u))
            # R1
            if u.args and isinstance(u.args[0], ast.Constant) and isinstance(u.args[0].value, str):
                g = u.args[0].value
                missing = sorted(set(r for d, r, meth in match_defs if g not in regexes[r][2]))
                r1.check(not missing, construct, rel, u.lineno,
                         'group %r does not exist in %s, whose match can reach this reference: would raise IndexError'
                         % (g, missing), detail={'patterns': sorted(set(r for d, r, meth in match_defs))})
            else:
                r1.ok(construct, rel, u.lineno, detail='positional/whole-match reference')
            # R2
            gl = P.guards(u)
            for d, rname, meth in match_defs:
                protected = False
                for g in gl:
                    if g.kind not in ('if', 'early', 'while'):
                        continue
                    ok = (g.polarity and truth_test_of(g.test, var)) or ((not g.polarity) and false_test_of(g.test, var))
                    if not ok:
                        continue
                    origin = g.origin
                    # the definition must lie outside (before) the guarded region and reach the test
                    if contains(origin, d) and not (isinstance(origin, (ast.If, ast.While)) and contains(origin.test, d)):
                        # definition inside the guarded statement: only fine if it precedes... it does not protect
                        if g.kind != 'early':
                            continue
                        continue
                    tnode = cfg.node_of(g.test)
                    if tnode is None:
                        continue
                    others = [x for x in defs_cache[var] if x is not d]
                    if d is tnode or cfg.reaches(d, tnode, avoiding=others):
                        protected = True
                        break
                if protected:
                    r2.ok(construct, rel, u.lineno, detail='guarded by truth test of %s.%s()' % (rname, meth))
                    continue
                if meth != 'match':
                    r2.fail(construct, rel, u.lineno, '%s.%s() result used without a test' % (rname, meth))
                    continue
                cex = is_total(rname)
                r2.check(cex is None, construct, rel, u.lineno,
                         'result of %s.match() is dereferenced without a truth test and the pattern is not total: it '
                         'does not match the line %r, so `None.%s` would raise AttributeError' % (rname, cex, u.func.attr),
                         detail='unguarded; %s is total on newline-free strings (automaton universality)' % rname)
    r2.exhaustive = n_unresolved == 0
    if n_unresolved:
        ctx.notes.append('R1/R2: %d match-object references reached by a match through a non-constant pattern were not decided' % n_unresolved)

    # ------------------------------------------------------------------ R3 dispatch exhaustive + vocabulary known
    r3 = ctx.rule('R3', 'every valid annotation has a validator and is known to the option parser', floor=40)
    validator_rule(ctx, r3)
    # the dispatch expression itself
    val_f = py.func('annotationparser', 'GtkDocAnnotatable.validate')
    ga = [c for c in P.calls_in(val_f) if P.call_name(c) == 'getattr']
    r3.check(len(ga) == 1 and P.src(ga[0].args[1]) == "'_do_validate_' + ann_name.replace('-', '_')" and
             any('ann_name in self.valid_annotations' == g.text() for g in P.guards(ga[0])), 'validator dispatch', rel, val_f.lineno,
             'validate() does not dispatch valid annotations to _do_validate_<name>')
    # option-less unknown annotation: _parse_annotation_options_unknown may return None only for names outside valid sets
    unk = py.func('annotationparser', 'GtkDocCommentBlockParser._parse_annotation_options_unknown')
    implicit_none = not P.always_exits(unk.body[-1:]) if unk.body else True
    ctx.notes.append('_parse_annotation_options_unknown can return None: %s' % implicit_none)

    # ------------------------------------------------------------------ R4 catch-all
    r4 = ctx.rule('R4', 'each block parsed under try/except Exception -> error(file,line) and continue', floor=3)
    pcb = py.func('annotationparser', 'GtkDocCommentBlockParser.parse_comment_blocks')
    calls = [c for c in P.calls_in(pcb) if P.call_name(c) == 'self.parse_comment_block']
    if len(calls) != 1:
        raise AnalysisError('parse_comment_blocks: call to parse_comment_block not found')
    tr = None
    n = P.parent(calls[0])
    while n is not None and n is not pcb:
        if isinstance(n, ast.Try) and any(contains(b, calls[0]) for b in n.body):
            tr = n
            break
        n = P.parent(n)
    loop = [x for x in P.walk_no_nested(pcb) if isinstance(x, ast.For)]
    ok = tr is not None and len(loop) == 1 and contains(loop[0], tr)
    r4.check(ok, 'parse_comment_block inside try within the loop', rel, calls[0].lineno, 'no try block around the per-block parse')
    if tr is not None:
        hs = [h for h in tr.handlers if h.type is None or P.src(h.type) in ('Exception', 'BaseException')]
        r4.check(len(hs) >= 1, 'handler catches Exception', rel, tr.lineno, 'handlers: %s' % [P.src(h.type) for h in tr.handlers if h.type is not None])
        for h in hs:
            errs = [c for c in ast.walk(h) if isinstance(c, ast.Call) and P.call_name(c) in ('error', 'warn')]
            pos_ok = any(len(c.args) >= 2 and P.src(c.args[1]) == 'Position(filename, lineno)' for c in errs)
            cont = isinstance(h.body[-1], ast.Continue)
            r4.check(pos_ok and cont, 'handler reports position and continues', rel, h.lineno,
                     'handler does not report through error(..., Position(filename, lineno)) and continue with the next block')
        tgt = loop[0].target
        r4.check(P.src(tgt) == '(comment, filename, lineno)' and [P.src(a) for a in calls[0].args] == ['comment', 'filename', 'lineno'],
                 'block coordinates passed through', rel, calls[0].lineno, 'parse_comment_block(%s)' % [P.src(a) for a in calls[0].args])

    # ------------------------------------------------------------------ R5 coordinate frames and positions
    r5 = ctx.rule('R5', 'caret column and quoted line are in the same coordinate frame; positions carry file and running line', floor=30)
    f = py.func('annotationparser', 'GtkDocCommentBlockParser.parse_comment_block')
    cfg = pycfg.CFG(f)
    # the main loop
    main = [n for n in f.body if isinstance(n, ast.For) and any(isinstance(x, ast.Name) and x.id == 'comment_lines' for x in ast.walk(n.iter))]
    if len(main) != 1:
        raise AnalysisError('parse_comment_block: the loop over comment_lines was not found')
    # how the comment is split into lines
    cl = [v for t, v, st in P.stores_in(f) if isinstance(t, ast.Name) and t.id == 'comment_lines' and isinstance(st, ast.Assign)]
    if len(cl) != 1:
        raise AnalysisError('comment_lines is assigned %d times' % len(cl))
    sp = cl[0]
    if isinstance(sp, ast.Call) and isinstance(sp.func, ast.Attribute) and sp.func.attr == 'splitlines':
        r5.fail('lines split at line terminators only', rel, sp.lineno,
                'str.splitlines() also splits at \\f \\v \\x1c-\\x1e \\x85 \\u2028 \\u2029: every later diagnostic names a line '
                'number larger than the source line the text stands on (and "" yields no lines at all)')
    elif isinstance(sp, ast.Call) and isinstance(sp.func, ast.Attribute) and sp.func.attr == 'split' and \
            [py.try_fold(a, m) for a in sp.args] == ['\n']:
        inner = sp.func.value
        ok = P.src(inner) == 'comment'
        from . import c10
        pname = c10.line_break_sub(py, m, inner, 'comment')
        if isinstance(inner, ast.Call) and not ok:
            if pname in regexes:
                try:
                    got = rx.Language(regexes[pname][0], regexes[pname][1], 'fullmatch')
                    ref = rx.Language('\r\n|\r|\n', 0, 'fullmatch')
                    ok = rx.compare(got, ref) is None
                except rx.RxError as e:
                    raise AnalysisError(str(e))
        r5.check(ok, 'lines split at line terminators only', rel, sp.lineno,
                 'comment text is not split exactly at CRLF / CR / LF: %s' % P.src(sp), detail=P.src(sp))
    else:
        raise AnalysisError('comment_lines = %s: unrecognised way of splitting the block into lines' % P.src(sp))
    # every diagnostic site, with locals copy-propagated and in-class helpers inlined (gated summary): the caret column must be
    # a match position on (a suffix of) the quoted line plus exactly the number of characters stripped in front of that suffix
    HELPERS = ('_parse_annotations', '_parse_fields', '_parse_annotation', '_parse_annotation_options_list')
    PCB = gsa.summarise(ctx, 'annotationparser', 'GtkDocCommentBlockParser.parse_comment_block', opaque=HELPERS + ('_validate_multiline_annotation_continuation',))
    if len(PCB.params) < 4:
        raise AnalysisError('parse_comment_block(self, comment, filename, lineno) signature changed: %s' % PCB.params)
    fname_p, lineno_p = PCB.P(2), PCB.P(3)

    def str_base(n):
        """(base text, [stripped prefix lengths]) of a string expression"""
        offs = []
        while True:
            if isinstance(n, ast.Subscript) and isinstance(n.slice, ast.Slice) and n.slice.upper is None and n.slice.step is None and n.slice.lower is not None:
                offs.append(gsa._unparse(n.slice.lower))
                n = n.value
            elif isinstance(n, ast.Call) and isinstance(n.func, ast.Attribute) and n.func.attr == 'rstrip' and not n.args:
                n = n.func.value
            else:
                break
        return gsa._unparse(n), sorted(offs)

    def col_terms(n):
        if isinstance(n, ast.BinOp) and isinstance(n.op, ast.Add):
            return col_terms(n.left) + col_terms(n.right)
        return [n]

    undecided = []

    def check_site(e, col, line_e, what):
        base, loffs = str_base(line_e)
        terms = []
        for t in col_terms(col):
            if isinstance(t, ast.Constant) and t.value == 0:
                continue
            is_pos = isinstance(t, ast.Call) and isinstance(t.func, ast.Attribute) and t.func.attr in ('start', 'end') and isinstance(t.func.value, ast.Call) \
                and isinstance(t.func.value.func, ast.Attribute) and t.func.value.func.attr in MATCH_METHODS and bool(t.func.value.args)
            terms.append((gsa._unparse(t), str_base(t.func.value.args[0]) if is_pos else None))
        pos = [sb for txt, sb in terms if sb is not None]
        ks = [txt for txt, sb in terms if sb is None]
        if any(re.match(r'^[A-Za-z_]\w*$', k_) and k_ not in PCB.params for k_ in ks):
            # the column is held in a local the summary could not resolve to a match position (e.g. filled inside a loop over a table of
            # patterns): nothing is decided for this site
            undecided.append((e.line, ks))
            return base
        ok = False
        if not terms:
            ok = True
        for i, (txt, sb) in enumerate(terms):
            if sb is None or sb[0] != base:
                continue
            rest = sorted([t2 for j, (t2, s2) in enumerate(terms) if j != i] + loffs)
            if rest == sorted(sb[1]):
                ok = True
        r5.check(ok, what, rel, e.line,
                 'caret column `%s` and quoted line `%s` are not in the same coordinate frame: the column must be a match position on (a suffix of) the quoted line plus the '
                 'length stripped in front of that suffix, so that the caret points at the offending text' % (gsa._unparse(col)[:120], gsa._unparse(line_e)[:60]),
                 detail={'position terms': pos, 'offsets': ks, 'line': [base, loffs]})
        return base
    # the expression that denotes the 1-based number of the line being looked at inside the main loop:
    #   (a) the line counter parameter, incremented first thing in every iteration           -> `lineno + 1` after copy propagation
    #   (b) the counter component of `enumerate(comment_lines, lineno + 1)`                  -> that loop variable (never rebound)
    it = main[0].iter
    cur_line = '%s + 1' % lineno_p
    enum_form = False
    if isinstance(it, ast.Call) and P.call_name(it) == 'enumerate' and it.args and P.src(it.args[0]) == 'comment_lines':
        start = it.args[1] if len(it.args) > 1 else next((k.value for k in it.keywords if k.arg == 'start'), None)
        tg = main[0].target
        if start is None or gsa._unparse(start) != '%s + 1' % lineno_p or not (isinstance(tg, ast.Tuple) and len(tg.elts) == 2 and isinstance(tg.elts[0], ast.Name)):
            r5.fail('running line number', rel, main[0].lineno, 'lines are numbered by %s: the first line after the opening token must get number %s + 1' % (P.src(it), lineno_p))
        else:
            cur_line = tg.elts[0].id
            enum_form = True
    WANT_POS = {'comment_lines[0]': 'Position(%s, %s)' % (fname_p, lineno_p), 'comment_lines[-1]': 'Position(%s, %s + len(comment_lines) - 1)' % (fname_p, lineno_p)}
    n_exempt = n_sites = 0
    diag = []
    for e in PCB.effects:
        if e.kind != 'call' or e.vnode is None:
            continue
        a = e.vnode.args
        if e.target in ('warn', 'error'):
            diag.append(e)
            if gsa.needs(PCB, e, r'DEPRECATED_GI_ANN_TAGS'):
                n_exempt += 1
                continue
            if len(a) >= 5:
                n_sites += 1
                base = check_site(e, a[3], a[4], '%s(%s, %s)' % (e.target, P.src(e.node.args[3]), P.src(e.node.args[4])))
                wantp = WANT_POS.get(base, 'Position(%s, %s)' % (fname_p, cur_line) if e.loops else None)
                r5.check(len(a) >= 2 and gsa._unparse(a[1]) == wantp, 'diagnostic carries the position of the quoted line', rel, e.line,
                         'diagnostic quoting `%s` is reported at %s, expected %s' % (base, gsa._unparse(a[1]) if len(a) > 1 else None, wantp), detail=gsa._unparse(a[1]) if len(a) > 1 else None)
            else:
                wantp = 'Position(%s, %s)' % (fname_p, cur_line) if e.loops else 'Position(%s, %s)' % (fname_p, lineno_p)
                r5.check(len(a) >= 2 and gsa._unparse(a[1]) == wantp, 'diagnostic carries position', rel, e.line,
                         'diagnostic without the current position: %s' % e.value[:80])
        elif e.target in ['self.' + h for h in HELPERS] and len(a) >= 3:
            if gsa.needs(PCB, e, r'DEPRECATED_GI_ANN_TAGS'):
                n_exempt += 1
                continue
            n_sites += 1
            check_site(e, a[1], a[2], '%s(%s, %s)' % (e.target, P.src(e.node.args[1]), P.src(e.node.args[2])))
            r5.check(gsa._unparse(a[0]) == 'Position(%s, %s)' % (fname_p, cur_line), 'helper receives the position of the current line', rel, e.line,
                     '%s is given position %s' % (e.target, gsa._unparse(a[0])))
    if n_sites - len(undecided) < 20:
        raise AnalysisError('parse_comment_block: only %d diagnostic sites with a caret column recognised' % (n_sites - len(undecided)))
    if undecided:
        ctx.notes.append('R5: %d sites whose column is an unresolved local were not decided: %s' % (len(undecided), undecided[:4]))
    ctx.notes.append('R5: %d diagnostic sites under the deprecated tag-style branch exempted (as the property states)' % n_exempt)
    inc = [e for e in PCB.effects if e.kind == 'local' and e.target == lineno_p]
    if enum_form:
        okinc = not inc and not [e for e in PCB.effects if e.kind == 'local' and e.target == cur_line]
    else:
        okinc = len(inc) == 1 and inc[0].value == '%s + 1' % lineno_p and all(gsa.implies(d.cond, inc[0].cond) for d in diag if d.loops)
    r5.check(okinc, 'running line number', rel, inc[0].line if inc else f.lineno, 'the line counter is not incremented exactly once, first thing, for every line: %s' % [(e.value, e.when()[:80]) for e in inc])
    # helpers pass (column, line) through unchanged in frame
    for hn in HELPERS:
        HS = gsa.summarise(ctx, 'annotationparser', 'GtkDocCommentBlockParser.' + hn, inline_only=())
        params = HS.params
        if 'column' not in params or 'line' not in params:
            raise AnalysisError('%s lost its (column, line) parameters' % hn)
        for e in HS.effects:
            if e.kind != 'call' or e.vnode is None:
                continue
            a = e.vnode.args
            col = line_e = None
            if e.target in ('warn', 'error') and len(a) >= 5:
                col, line_e = a[3], a[4]
            elif e.target in ['self.' + h for h in HELPERS] and len(a) >= 3:
                col, line_e = a[1], a[2]
            if col is None:
                continue
            derived = 'column' in P.names_in(col)
            r5.check(derived and gsa._unparse(line_e) == 'line', '%s: %s(%s, %s)' % (hn, e.target, gsa._unparse(col)[:40], gsa._unparse(line_e)[:20]), rel, e.line,
                     'helper does not pass the (column, line) pair it received: column=%s line=%s' % (gsa._unparse(col), gsa._unparse(line_e)))
    # copies of annotation containers keep their position
    ann_cls = py.cls('annotationparser', 'GtkDocAnnotations')
    pa = py.func('annotationparser', 'GtkDocCommentBlockParser._parse_annotations')
    copies = [c for c in P.calls_in(pa) if isinstance(c.func, ast.Attribute) and c.func.attr == 'copy' and P.src(c.func.value) == 'annotations']
    meths = dict((s.name, s) for s in ann_cls.body if isinstance(s, ast.FunctionDef))
    slots = py.try_fold([s for s in ann_cls.body if isinstance(s, ast.Assign) and P.src(s.targets[0]) == '__slots__'][0].value, m)
    if copies:
        cp = meths.get('copy')
        keeps = cp is not None and ('position=self.position' in P.src(cp) or 'self.__copy__()' in P.src(cp))
        alias = [s for s in ann_cls.body if isinstance(s, ast.Assign) and P.src(s.targets[0]) == 'copy' and P.src(s.value) == '__copy__']
        keeps = keeps or (bool(alias) and '__copy__' in meths and 'position=self.position' in P.src(meths['__copy__']))
        r5.check(keeps, 'GtkDocAnnotations.copy() keeps position', rel, copies[0].lineno,
                 '_parse_annotations continues annotations on a following line via annotations.copy(); OrderedDict.copy() builds '
                 'self.__class__(self) and never calls __copy__, so the copy has position=None and validate() reports later '
                 'problems at "<unknown>:" instead of the file and line')
    else:
        r5.ok('no dict.copy() of annotation containers', rel, pa.lineno)

    # ------------------------------------------------------------------ R6 counted even when suppressed
    r6 = ctx.rule('R6', 'every diagnostic is counted before any suppression; helpers reach log(); warnings-as-errors consults the count', floor=8)
    mm = py.mod('message')
    log = py.func('message', 'MessageLogger.log')
    lcfg = pycfg.CFG(log)
    incs = [n for n in P.walk_no_nested(log) if isinstance(n, ast.AugAssign) and P.src(n.target) == 'self._warning_count']
    if len(incs) != 1:
        r6.fail('count increment', mm.rel, log.lineno, 'expected exactly one `self._warning_count += 1` in log(), found %d' % len(incs))
    else:
        inc = incs[0]
        gs = [g.text() for g in P.guards(inc)]
        r6.check(not gs and P.src(inc.value) == '1', 'count unconditional', mm.rel, inc.lineno,
                 'the diagnostic counter is incremented only when %s: other diagnostics (e.g. errors) are not counted and '
                 'warnings-as-errors lets the run succeed' % gs, detail='guards: none')
        for n in P.walk_no_nested(log):
            if isinstance(n, (ast.Return, ast.Raise)):
                r6.check(lcfg.dominates(inc, n), 'count before exit', mm.rel, n.lineno, 'log() can leave at line %d without counting' % n.lineno)
        outs = [c for c in P.calls_in(log) if P.src(c.func) == 'self._output.write']
        for o in outs:
            r6.check(lcfg.dominates(inc, lcfg.node_of(o)), 'count before output', mm.rel, o.lineno, 'output written before counting')
    # what log() writes for a quoted line: the caller's line and column, unmodified (the caret stays inside the quoted text)
    LG = gsa.summarise(ctx, 'message', 'MessageLogger.log', inline_only=())
    if 'marker_pos' not in LG.params or 'marker_line' not in LG.params:
        raise AnalysisError('MessageLogger.log has no marker_pos/marker_line parameters: %s' % LG.params)
    nq = 0
    seen_q = set()
    for e in gsa.find(LG, 'call', r'^self\._output\.write$'):
        if e.vnode is None or not e.vnode.args:
            continue
        for leaf in strfrag.leaves(strfrag.flatten(e.vnode.args[0])):
            if leaf[0] != 'expr':
                continue
            t = gsa._unparse(leaf[1])
            names = set(n.id for n in ast.walk(leaf[1]) if isinstance(n, ast.Name))
            if not names & {'marker_line', 'marker_pos'} or t in seen_q:
                continue
            seen_q.add(t)
            nq += 1
            x = leaf[1]
            okq = t == 'marker_line' or (isinstance(x, ast.BinOp) and isinstance(x.op, ast.Mult) and
                                         sorted([gsa._unparse(x.left), gsa._unparse(x.right)]) == ["' '", 'marker_pos'])
            r5.check(okq, 'log() prints the quoted line and the caret offset as given: %s' % t, mm.rel, e.line,
                     'log() prints `%s` instead of the marker line / caret column it was given: the quoted text is no longer the source line, or the caret '
                     'no longer lies within it' % t, detail=t)
    r5.check(nq >= 2, 'log() prints marker line and caret', mm.rel, log.lineno, 'log() does not print the quoted line with a caret any more (%d fragments)' % nq)
    # who writes the counter / output
    writers = []
    for mod in py.all_modules():
        for n in ast.walk(mod.tree):
            if isinstance(n, ast.Attribute) and n.attr == '_warning_count' and isinstance(n.ctx, ast.Store):
                fn = P.enclosing_function(n)
                writers.append((mod.rel, fn.name if fn else '?'))
    r6.check(sorted(set(writers)) == [(mm.rel, '__init__'), (mm.rel, 'log')], 'only log() updates the counter', mm.rel, 1, 'counter written from %s' % writers)
    gw = py.func('message', 'MessageLogger.get_warning_count')
    r6.check([P.src(s) for s in gw.body if not isinstance(s, ast.Expr)] == ['return self._warning_count'], 'get_warning_count returns the counter',
             mm.rel, gw.lineno, 'get_warning_count body changed')
    # module-level helpers reach log with their own level
    expect = {'warn': 'WARNING', 'error': 'ERROR', 'fatal': 'FATAL'}
    for hn, lvl in expect.items():
        hf = py.func('message', hn)
        HS_ = gsa.Summary(py, 'message', hn, inline_module_funcs=True)
        lc = [e for e in gsa.find(HS_, 'call', r'(^|\.)log$')]
        ok = False
        if len(lc) == 1 and lc[0].cond is True and len(HS_.params) >= 5 and lc[0].vnode is not None:
            # arguments may be forwarded positionally or by keyword: bind them through the signature of MessageLogger.log
            b_ = P.bind_call(lc[0].vnode, log)
            got_ = [gsa._unparse(b_[k_]) if b_.get(k_) is not None else None for k_ in ('log_type', 'text', 'positions', 'prefix', 'marker_pos', 'marker_line')]
            ok = got_ == [lvl] + list(HS_.params)[:5] and re.match(r'^MessageLogger\.get\(\)\.log$', lc[0].target) is not None
        r6.check(ok, '%s() -> log(%s) unconditionally with all arguments' % (hn, lvl), mm.rel, hf.lineno, '%s: %s' % (hn, [(e.value, e.when()[:60]) for e in lc]))
    ln = py.func('message', 'MessageLogger.log_node')
    lc = [c for c in P.calls_in(ln) if P.src(c.func) == 'self.log']
    r6.check(len(lc) == 1 and not [g for g in P.guards(lc[0])], 'log_node reaches log', mm.rel, ln.lineno, 'log_node does not always call log')
    # annotationparser's warn/error are message.warn/error
    r6.check(m.imports.get('warn') == ('message', 'warn') and m.imports.get('error') == ('message', 'error') and
             'warn' not in m.functions and 'error' not in m.functions, 'parser diagnostics go through the message log', rel, 1,
             'annotationparser warn/error are not giscanner.message.warn/error')
    # no diagnostic of the parser is conditional on the display switch: a diagnostic that is skipped is not counted either
    disp = set(['_enable_warnings'])
    for mn, mf in py.methods('message', 'MessageLogger').items():
        if any(isinstance(n, ast.Return) and n.value is not None and P.src(n.value) == 'self._enable_warnings' for n in P.walk_no_nested(mf)):
            disp.add(mn)
    drx = re.compile(r'\b(%s)\b' % '|'.join(sorted(re.escape(d) for d in disp)))
    nd = 0
    for qual in ['GtkDocCommentBlockParser.' + x for x in sorted(py.methods('annotationparser', 'GtkDocCommentBlockParser'))]:
        DS = gsa.summarise(ctx, 'annotationparser', qual, inline_only=())
        for e in gsa.find(DS, 'call', r'^(warn|error)$'):
            nd += 1
            dep = sorted(a for a in gsa.atoms(e.cond) if drx.search(a))
            if dep:
                r6.fail('%s: diagnostic at line %d independent of the display switch' % (qual, e.line), rel, e.line,
                        'this diagnostic is only raised when %s: with warnings switched off it is not counted and warnings-as-errors lets the run succeed' % dep)
    r6.check(nd >= 30, 'parser diagnostics independent of the display switch (%d call sites)' % nd, rel, 1, 'only %d diagnostic call sites found in the parser' % nd, detail=nd)
    # scanner_main: warn_fatal and count > 0 -> fatal
    sm = py.mod('scannermain')
    smf = py.func('scannermain', 'scanner_main')
    called = set(P.call_name(c) for c in P.calls_in(smf))
    helpers = [fn for fn, fd in sm.functions.items() if fn != 'scanner_main' and fn in called and any(P.call_name(c) == 'message.fatal' for c in P.calls_in(fd))]
    SM = gsa.Summary(py, 'scannermain', 'scanner_main', inline_module_funcs=True, inline_only=helpers)
    okf = False
    seen_f = []
    for e in gsa.find(SM, 'call', r'^message\.fatal$'):
        wf = [a_ for a_ in gsa.atoms(e.cond) if re.search(r'\.warn_fatal$', a_)]
        cnt = [a_ for a_ in gsa.atoms(e.cond) if re.match(r'^0 < .*\.get_warning_count\(\)$', a_)]
        seen_f.append((e.value[:50], e.when()[-160:]))
        if wf and cnt and gsa.can_hold(e.cond, dict([(a_, True) for a_ in wf + cnt])) and not gsa.can_hold(e.cond, dict((a_, False) for a_ in wf)) \
                and not gsa.can_hold(e.cond, dict((a_, False) for a_ in cnt)):
            okf = True
    r6.check(okf, 'warnings-as-errors fails when anything was diagnosed', sm.rel, smf.lineno,
             'scanner_main does not call message.fatal exactly under `options.warn_fatal and logger.get_warning_count() > 0`: %s' % seen_f, detail=seen_f)

    # ------------------------------------------------------------------ R7 all-or-nothing annotations
    r7 = ctx.rule('R7', 'a malformed annotation field yields no annotations at all; results applied only on success', floor=12)
    PAS = gsa.summarise(ctx, 'annotationparser', 'GtkDocCommentBlockParser._parse_annotations', inline_only=())
    fields = py.fold(m.assigns['_ParseAnnotationsResult'][0].args[1], m)
    si, ai = fields.index('success'), fields.index('annotations')
    rets = [e for e in PAS.effects if e.kind == 'return']
    fails = []
    for rt in rets:
        n = rt.vnode
        if not (isinstance(n, ast.Call) and P.call_name(n) == '_ParseAnnotationsResult' and len(n.args) > max(si, ai)):
            r7.fail('result type', rel, rt.line, '_parse_annotations returns %s instead of a _ParseAnnotationsResult' % rt.value[:60])
            continue
        if gsa._unparse(n.args[si]) == 'False':
            fails.append(rt)
            r7.check(gsa._unparse(n.args[ai]) == 'None', 'failure result carries no annotations', rel, rt.line,
                     'failed parse returns annotations=%s' % gsa._unparse(n.args[ai]))
    FAIL = gsa.cond_any(fails)
    for c in gsa.find(PAS, 'call', r'^error$'):
        msg = c.vnode.args[0] if c.vnode is not None and c.vnode.args else None
        if msg is not None and 'will be ignored' in (py.try_fold(msg, m, '') or ''):
            r7.check(gsa.implies(c.cond, FAIL), '"annotations will be ignored" is followed by a failure return', rel, c.line,
                     'error says the annotations will be ignored but parsing continues')
    r7.check(len(fails) >= 2, 'failure returns present', rel, pa.lineno, 'only %d failure returns' % len(fails))
    # the working container never aliases the caller's live annotations
    wk = [(v, st) for t, v, st in P.stores_in(pa) if isinstance(t, ast.Name) and t.id == 'parsed_annotations' and isinstance(st, ast.Assign)]
    for v, st in wk:
        t = P.src(v)
        r7.check(t != 'annotations' and not (isinstance(v, ast.Name)), 'working copy', rel, st.lineno,
                 'parsed_annotations = %s aliases the live annotations object: annotations parsed before a later syntax error '
                 'stay applied although the error says they are ignored' % t, detail=t)
    mut = [st for t, v, st in P.stores_in(pa) if isinstance(t, ast.Subscript) and P.src(t.value) != 'parsed_annotations' and 'annotations' in P.src(t.value)]
    r7.check(not mut, 'only the working copy is mutated', rel, pa.lineno, 'mutation of %s' % [P.src(s) for s in mut])
    # call sites: `.annotations = <parse result>.annotations` only when that result's .success holds (gated summaries: the test may be
    # hoisted into a flag, combined with others or expressed by an early exit)
    n_apply = 0
    PF_S = gsa.summarise(ctx, 'annotationparser', 'GtkDocCommentBlockParser._parse_fields', inline_only=())
    for S_ in (PCB, PF_S):
        for e in gsa.find(S_, 'store', r'\.annotations$'):
            mm_ = re.match(r'^(self\._parse_(?:annotations|fields)\(.*\))\.annotations$', e.value)
            if not mm_:
                continue
            n_apply += 1
            succ = [a_ for a_ in gsa.atoms(e.cond) if a_ == mm_.group(1) + '.success']
            r7.check(bool(succ) and not gsa.can_hold(e.cond, dict((a_, False) for a_ in succ)), 'applied only on success: %s = ...annotations' % e.target, rel, e.line,
                     'parse result applied without checking .success (stored when %s)' % e.when()[-200:])
    if n_apply < 3:
        raise AnalysisError('stores of parsed annotations not recognised (%d)' % n_apply)
    pf = py.func('annotationparser', 'GtkDocCommentBlockParser._parse_fields')
    pfr = [n for n in P.walk_no_nested(pf) if isinstance(n, ast.Return)]
    r7.check(len(pfr) >= 1 and all(isinstance(n.value, ast.Call) and P.call_name(n.value) == '_ParseFieldsResult' for n in pfr), '_parse_fields returns result objects',
             rel, pf.lineno, '_parse_fields returns %s' % [P.src(n.value) for n in pfr])
    for n in pfr:
        a0 = P.src(n.value.args[0])
        r7.check(a0 in ('True', 'False', 'res.success', 'result.success') or a0.endswith('.success'), '_parse_fields propagates success', rel, n.lineno, 'success=%s' % a0)

    # ------------------------------------------------------------------ R8 constant subscripts are in range for every input
    r8 = ctx.rule('R8', 'constant subscripts on sequences whose length depends on the comment text (str.split / partition / list displays) '
                  'are in range on every path that evaluates them', floor=1)
    bounds_rule(ctx, r8, 'annotationparser', 'GtkDocCommentBlockParser', rel)


def seq_bounds(n):
    """(min length, max length or None) of the sequence an expression evaluates to, None when nothing is known"""
    if isinstance(n, (ast.List, ast.Tuple)) and not any(isinstance(e, ast.Starred) for e in n.elts):
        return len(n.elts), len(n.elts)
    if isinstance(n, ast.Call) and isinstance(n.func, ast.Attribute):
        a = n.func.attr
        if a in ('split', 'rsplit'):
            sep = n.args[0] if n.args else next((k.value for k in n.keywords if k.arg == 'sep'), None)
            mx = n.args[1] if len(n.args) > 1 else next((k.value for k in n.keywords if k.arg == 'maxsplit'), None)
            hi = mx.value + 1 if isinstance(mx, ast.Constant) and isinstance(mx.value, int) and mx.value >= 0 else None
            if isinstance(n.func.value, ast.Name) and n.func.value.id == 're':
                return 1, None
            if sep is None or (isinstance(sep, ast.Constant) and sep.value is None):
                return 0, hi            # whitespace splitting drops empty strings: '' and '   ' give []
            return 1, hi
        if a in ('partition', 'rpartition'):
            return 3, 3
        if a == 'splitlines':
            return 0, None
    return None


_SAFE = (ast.Expression, ast.Compare, ast.Constant, ast.BoolOp, ast.UnaryOp, ast.BinOp, ast.And, ast.Or, ast.Not, ast.Eq, ast.NotEq, ast.Lt, ast.LtE, ast.Gt,
         ast.GtE, ast.Add, ast.Sub, ast.USub, ast.In, ast.NotIn, ast.Tuple, ast.List, ast.Load)


def _len_atom(a, base, L):
    """truth of an atom about len(base) (or the truth of base itself) when the length is L; None when the atom says nothing about it"""
    if a == base:
        return L > 0
    key = 'len(%s)' % base
    if key not in a:
        return None
    try:
        t = ast.parse(a.replace(key, str(L)), mode='eval')
    except SyntaxError:
        return None
    if not all(isinstance(x, _SAFE) for x in ast.walk(t)):
        return None
    try:
        return bool(eval(compile(t, '<atom>', 'eval'), {'__builtins__': {}}, {}))
    except Exception:
        return None


def bounds_rule(ctx, rule, modname, cname, rel):
    n_known = 0
    for mname in sorted(ctx.py.methods(modname, cname)):
        S = gsa.summarise(ctx, modname, '%s.%s' % (cname, mname), inline_only=(), index=True)
        for e in gsa.find(S, 'index'):
            b = seq_bounds(e.vnode)
            if b is None:
                continue
            n_known += 1
            k = int(e.value)
            need = k + 1 if k >= 0 else -k
            lo, hi = b
            bad = None
            for L in range(lo, need):
                val = {}
                for a in gsa.atoms(e.cond):
                    v = _len_atom(a, e.target, L)
                    if v is not None:
                        val[a] = v
                if gsa.can_hold(e.cond, val):
                    bad = L
                    break
            rule.check(bad is None, '%s: %s[%d]' % (mname, e.target[-70:], k), rel, e.line,
                       '%s[%d] is evaluated on a path where the sequence can have %s element(s): IndexError escapes the parser '
                       '(the sequence has at least %d element(s) and no test on this path requires more)' % (e.target[-90:], k, bad, lo),
                       detail={'min': lo, 'max': hi, 'index': k})
    return n_known


def validator_rule(ctx, r3):
    """every annotation a documented element accepts has a validator method and is known to the option parser (shared with C10: a block
    that follows the grammar is parsed, not dropped by an AttributeError)"""
    py = ctx.py
    m = py.mod('annotationparser')
    rel = m.rel
    all_ann = py.fold_name(m, 'ALL_ANNOTATIONS')
    list_ann = py.fold_name(m, 'LIST_ANNOTATIONS')
    dict_ann = py.fold_name(m, 'DICT_ANNOTATIONS')
    base_methods = py.methods('annotationparser', 'GtkDocAnnotatable')
    for cname in ('GtkDocParameter', 'GtkDocTag', 'GtkDocCommentBlock'):
        mm, val = py.class_attr('annotationparser', cname, 'valid_annotations')
        names = py.fold(val, mm)
        methods = py.methods('annotationparser', cname)
        for a in names:
            meth = '_do_validate_' + a.replace('-', '_')
            fd = methods.get(meth)
            r3.check(fd is not None and len(fd.args.args) == 4, '%s validator for "%s"' % (cname, a), rel,
                     fd.lineno if fd is not None else val.lineno,
                     'valid annotation "%s" of %s has no %s(position, ann_name, options): validate() would raise AttributeError' % (a, cname, meth))
            r3.check(a in all_ann and (a in list_ann or a in dict_ann), 'annotation "%s" known to the option parser' % a, rel, val.lineno,
                     'annotation "%s" is valid on %s but missing from ALL_ANNOTATIONS (GI_ANNS): its options are parsed by '
                     '_parse_annotation_options_unknown, which yields None for "(%s)" without options, and the validator '
                     'then raises TypeError (len(None)) — the whole comment block is lost with an "unrecoverable parse error"'
                     % (a, cname, a))
