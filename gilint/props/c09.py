"""C09 — the repository API reports what the typelib contains (offset arithmetic and counts)."""
import re
from collections import Counter

from ..core import AnalysisError
from .. import cfront as C
from .. import cgsa, gsa

EXPLANATION = ('The order in which _g_ir_node_build_typelib (girnode.c) lays out the variable-length sections of object, '
               'interface, struct, union and enum blobs is extracted from the clang AST and turned into expected prefix sums; '
               'every accessor in gi{object,interface,struct,union,enum}info.c that computes a section offset is normalised to '
               'a polynomial over {blob->n_*, header->*_blob_size, n} and must equal base + sum(preceding sections) + n*own size '
               '(interface-list padding and embedded field callbacks included).  Count accessors return the like-named blob '
               'member; attribute lookup compares the member the writer sorts by and rewinds with >=.')

GN = 'girepository/girnode.c'
GM = 'girepository/girmodule.c'
FILES = {'OBJECT': 'girepository/giobjectinfo.c', 'INTERFACE': 'girepository/giinterfaceinfo.c', 'STRUCT': 'girepository/gistructinfo.c',
         'UNION': 'girepository/giunioninfo.c', 'ENUM': 'girepository/gienuminfo.c'}
INFO_KIND = {'GI_INFO_TYPE_FIELD': 'FIELD', 'GI_INFO_TYPE_PROPERTY': 'PROPERTY', 'GI_INFO_TYPE_FUNCTION': 'FUNCTION', 'GI_INFO_TYPE_SIGNAL': 'SIGNAL',
             'GI_INFO_TYPE_VFUNC': 'VFUNC', 'GI_INFO_TYPE_CONSTANT': 'CONSTANT', 'GI_INFO_TYPE_VALUE': 'VALUE'}
NAME_KIND = [('field', 'FIELD'), ('propert', 'PROPERTY'), ('method', 'FUNCTION'), ('signal', 'SIGNAL'), ('vfunc', 'VFUNC'), ('constant', 'CONSTANT'),
             ('discriminator', 'DISCRIMINATOR'), ('value', 'VALUE')]


def ns(s):
    return re.sub(r'\s+', '', s or '')


# ---------------------------------------------------------------------- polynomials
def padd(a, b, s=1):
    r = Counter(a)
    for k, v in b.items():
        r[k] += s * v
    return {k: v for k, v in r.items() if v}


def pmul(a, b):
    r = Counter()
    for k1, v1 in a.items():
        for k2, v2 in b.items():
            r[tuple(sorted(k1 + k2))] += v1 * v2
    return {k: v for k, v in r.items() if v}


def sym(n):
    p = C.member_path(n)
    return p


def poly(tu, n, env=None):
    n = C.strip(n)
    k = n.get('kind')
    if k == 'IntegerLiteral':
        return {(): int(n['value'])}
    s = sym(n)
    if s:
        if env and s in env:
            return env[s]
        return {(s,): 1}
    if k == 'BinaryOperator':
        op = n['opcode']
        L, R = C.kids(n)
        if op == '+':
            return padd(poly(tu, L, env), poly(tu, R, env))
        if op == '-':
            return padd(poly(tu, L, env), poly(tu, R, env), -1)
        if op == '*':
            return pmul(poly(tu, L, env), poly(tu, R, env))
        if op == '%':
            return {('(%s%%%s)' % (sym(L), C.int_value(R)),): 1}
    if k == 'UnaryOperator' and n.get('opcode') in ('+', '-'):
        inner = poly(tu, C.kids(n)[0], env)
        return inner if n['opcode'] == '+' else padd({}, inner, -1)
    if k == 'CallExpr':
        nm = C.callee(n)
        args = [ns(tu.text_of(a)) for a in C.call_args(n)]
        inl = inline_poly(tu, nm, C.call_args(n), env)
        if inl is not None:
            return inl
        return {('CALL:%s(%s)' % (nm, ','.join(args)),): 1}
    return {('<%s:%s>' % (k, ns(tu.text_of(n))[:40]),): 1}


def inline_poly(tu, nm, args, env, depth=0):
    """polynomial of a call to a small static helper of the same file: `static gsize f (Blob *blob) { [locals;] return <expr>; }`"""
    f = tu.functions.get(nm) if nm else None
    if f is None or tu.body(f) is None or f.get('storageClass') != 'static' or depth > 2:
        return None
    body = C.kids(tu.body(f))
    rets = [x for x in C.walk(tu.body(f)) if x.get('kind') == 'ReturnStmt']
    if len(rets) != 1 or body[-1] is not rets[0] or any(x.get('kind') not in ('DeclStmt', 'ReturnStmt') for x in body):
        return None
    params = tu.params(f)
    if len(params) != len(args):
        return None
    rename = {}
    for p_, a in zip(params, args):
        path = C.member_path(a)
        if path is None:
            return None
        rename[p_.get('name')] = path
    sub = {}

    def rn(path):
        head = re.split(r'->|\.', path, 1)[0]
        if head in rename:
            return rename[head] + path[len(head):]
        return path

    def walk_poly(x):
        p = poly(tu, x, sub)
        out = {}
        for k_, v in p.items():
            out[tuple(sorted(rn(t) for t in k_))] = out.get(tuple(sorted(rn(t) for t in k_)), 0) + v
        return out
    for st in body[:-1]:
        for d in C.kids(st):
            if d.get('kind') == 'VarDecl' and C.kids(d) and d.get('init'):
                sub[d.get('name')] = walk_poly(C.kids(d)[-1])
    return walk_poly(C.kids(rets[0])[0])


def fmt(p):
    return ' + '.join((('%d*' % v) if v != 1 else '') + ('*'.join(k) if k else '1') for k, v in sorted(p.items())) or '0'


# ---------------------------------------------------------------------- writer layout
def writer_layout(tu):
    f = tu.func('_g_ir_node_build_typelib')
    sws = [n for n in C.walk(tu.body(f)) if n.get('kind') == 'SwitchStmt' and 'node->type' in ns(tu.text_of(C.kids(n)[0]))]
    if not sws:
        raise AnalysisError('_g_ir_node_build_typelib: switch (node->type) not found')
    groups = C.switch_cases(tu, sws[0])
    elem_blob = {}
    containers = {}
    for labels, stmts in groups:
        kinds = [l.replace('G_IR_NODE_', '') for l in labels if l and l.startswith('G_IR_NODE_')]
        # first `*offset += sizeof (T)` of the case
        first_sizeof = None
        events = []
        for st in stmts:
            for n in C.walk(st):
                if n.get('kind') == 'CompoundAssignOperator' and n.get('opcode') == '+=' and ns(tu.text_of(C.kids(n)[0])) == '*offset':
                    t = None
                    for x in C.walk(C.kids(n)[1]):
                        t = C.sizeof_type(x)
                        if t:
                            break
                    events.append(('inc', t, C.int_value(C.kids(n)[1]), n))
                    if t and first_sizeof is None:
                        first_sizeof = t
                elif n.get('kind') == 'CallExpr' and C.callee(n) == '_g_ir_node_build_members':
                    a = C.call_args(n)
                    kind = C.declref(a[1])
                    cnt = ns(tu.text_of(a[2])).lstrip('&')
                    cb = ns(tu.text_of(a[-1]))
                    events.append(('members', kind.replace('G_IR_NODE_', ''), cnt, None if cb in ('NULL', '((void*)0)') else cb.lstrip('&'), n))
                elif n.get('kind') == 'UnaryOperator' and n.get('opcode') == '++' and (C.member_path(C.kids(n)[0]) or '').startswith('blob->n_'):
                    events.append(('count', C.member_path(C.kids(n)[0]), n))
        events.sort(key=lambda e: (tu.line(e[-1]), e[-1].get('range', {}).get('begin', {}).get('col', 0)))
        for kd in kinds:
            elem_blob[kd] = first_sizeof
        for kd in kinds:
            if kd in ('OBJECT', 'INTERFACE', 'STRUCT', 'BOXED', 'UNION', 'ENUM', 'FLAGS'):
                prefix, sections = [], []
                pending_count = None
                for e in events:
                    if e[0] == 'count':
                        pending_count = e[1]
                    elif e[0] == 'inc' and e[2] == 2 and pending_count:
                        prefix.append(pending_count)
                        pending_count = None
                    elif e[0] == 'members':
                        sections.append((e[1], e[2], e[3]))
                if kd in ('ENUM', 'FLAGS'):
                    for e in events:
                        if e[0] == 'count':
                            nm = e[1]
                            sections.append(('VALUE' if nm.endswith('n_values') else 'FUNCTION', nm, None))
                containers[kd] = {'blob': first_sizeof, 'prefix': prefix, 'sections': sections}
    return elem_blob, containers


def header_sizes(tu):
    f = tu.func('_g_ir_module_build_typelib')
    out = {}
    for l, r, st in C.assignments(tu.body(f)):
        p = C.member_path(l) or ''
        if p.startswith('header->') and p.endswith('_blob_size'):
            t = C.sizeof_type(r)
            if t:
                out[t] = p
    return out


def check(ctx):
    gn = ctx.c.tu(GN)
    gm = ctx.c.tu(GM)
    elem_blob, containers = writer_layout(gn)
    hs = header_sizes(gm)
    for need in ('OBJECT', 'INTERFACE', 'STRUCT', 'UNION', 'ENUM'):
        if need not in containers or not containers[need]['sections']:
            raise AnalysisError('writer layout of %s not recognised' % need)
    ctx.extra['writer_layout'] = {k: {'blob': v['blob'], 'prefix': v['prefix'], 'sections': [list(s) for s in v['sections']]} for k, v in containers.items()}

    def hsize(kind):
        t = elem_blob.get(kind)
        if t is None or t not in hs:
            raise AnalysisError('no header size field for %s (%s)' % (kind, t))
        return hs[t]

    # ------------------------------------------------------------------ R1 section offsets
    r1 = ctx.rule('R1', 'accessor offset polynomial = writer section order (prefix sums)', floor=22)
    for cont, rel in FILES.items():
        tu = ctx.c.tu(rel)
        lay = containers[cont]
        base = {('rinfo->offset',): 1, (hs[lay['blob']],): 1}
        for pfx in lay['prefix']:
            base = padd(base, {(pfx,): 2, ('(%s%%2)' % pfx,): 2})

        def expected(kind, with_n, walk_style=None):
            p = dict(base)
            found = False
            for (k, cnt, cb) in lay['sections']:
                if k == kind:
                    found = True
                    break
                p = padd(p, {tuple(sorted((cnt, hsize(k)))): 1})
                if k == 'FIELD' and cb:
                    p = padd(p, {tuple(sorted((cb, hs['CallbackBlob']))): 1})
            if not found:
                return None
            if with_n:
                p = padd(p, {tuple(sorted(('n', hsize(kind)))): 1})
            return p

        for fname, f in sorted(tu.functions.items()):
            if not tu.in_main_file(f):
                continue
            body = tu.body(f)
            # straight-line symbolic values of the function's locals (initialisers, `=` and `+=` at the top level of the body): a hoisted
            # sub-expression or a running `offset += ...` accumulator gives the same polynomial as the one-expression form
            lenv = {}
            nested_assigned = set()
            at_assign = []          # (expression, statement, polynomial when assigned): a section start computed once and then advanced in a loop
            for st in C.kids(body):
                if st.get('kind') == 'DeclStmt':
                    for d in C.kids(st):
                        if d.get('kind') == 'VarDecl' and C.kids(d) and d.get('init'):
                            lenv[d['name']] = poly(tu, C.kids(d)[-1], lenv)
                            if C.strip(C.kids(d)[-1]).get('kind') == 'BinaryOperator':
                                at_assign.append((C.kids(d)[-1], d, lenv[d['name']], d['name']))
                elif st.get('kind') in ('BinaryOperator', 'CompoundAssignOperator') and st.get('opcode') in ('=', '+=') and C.declref(C.kids(st)[0]):
                    nm_ = C.declref(C.kids(st)[0])
                    val_ = poly(tu, C.kids(st)[1], lenv)
                    lenv[nm_] = val_ if st['opcode'] == '=' else padd(lenv.get(nm_, {(nm_,): 1}), val_)
                    if st['opcode'] == '=' and C.strip(C.kids(st)[1]).get('kind') == 'BinaryOperator':
                        at_assign.append((C.kids(st)[1], st, lenv[nm_], nm_))
                else:
                    for l_, r_, s_ in C.assignments(st):
                        if C.declref(l_):
                            nested_assigned.add(C.declref(l_))
                    for x in C.walk(st):
                        if x.get('kind') == 'UnaryOperator' and x.get('opcode') in ('++', '--') and C.declref(C.kids(x)[0]):
                            nested_assigned.add(C.declref(C.kids(x)[0]))
            for nm_ in nested_assigned:
                lenv.pop(nm_, None)

            def sized(e_):
                return any('blob_size' in t_ for k_ in poly(tu, e_, lenv) for t_ in k_)
            # candidate offset expressions
            exprs = []
            for c in C.calls(body):
                if C.callee(c) in tu.functions and C.callee(c) != fname and tu.functions[C.callee(c)].get('storageClass') == 'static':
                    continue        # static offset helpers are inlined into the polynomial, not candidates themselves
                for a in C.call_args(c):
                    if sized(a) and (C.strip(a).get('kind') == 'BinaryOperator' or C.declref(a) in lenv):
                        exprs.append((a, c))
            for rs in C.walk(body):
                if rs.get('kind') == 'ReturnStmt' and C.kids(rs) and sized(C.kids(rs)[0]) and (C.strip(C.kids(rs)[0]).get('kind') == 'BinaryOperator' or C.declref(C.kids(rs)[0]) in lenv):
                    exprs.append((C.kids(rs)[0], rs))
            seen_p = []
            uniq = []
            for e_, st_ in exprs:
                pp_ = poly(tu, e_, lenv)
                if pp_ not in seen_p:
                    seen_p.append(pp_)
                    uniq.append((e_, st_, pp_))
            for e_, st_, pp_, nm_ in at_assign:
                # only locals that are advanced later inside a loop/branch (their straight-line value was dropped above)
                if nm_ in nested_assigned and any('blob_size' in t_ for k_ in pp_ for t_ in k_) and pp_ not in seen_p:
                    seen_p.append(pp_)
                    uniq.append((e_, st_, pp_))
            exprs = uniq
            if not exprs:
                continue
            # which section does this function address?
            kind = None
            for c in C.calls(body, 'g_info_new'):
                k0 = C.declref(C.call_args(c)[0])
                if k0 in INFO_KIND:
                    kind = INFO_KIND[k0]
            if kind is None:
                for frag, kd in NAME_KIND:
                    if frag in fname:
                        kind = kd
                        break
            if kind is None:
                continue
            for e, st, got in exprs:
                has_n = any('n' in k for k in got)
                if kind == 'DISCRIMINATOR':
                    # discriminator constants follow the last section of a union
                    exp = dict(base)
                    for (k, cnt, cb) in lay['sections']:
                        exp = padd(exp, {tuple(sorted((cnt, hsize(k)))): 1})
                    exp = padd(exp, {tuple(sorted(('n', hs['ConstantBlob']))): 1})
                else:
                    exp = expected(kind, has_n)
                if exp is None:
                    continue
                # walking accessors: base of the field section only, or CALL to the walker with all fields
                walker = [k for k in got if any(s.startswith('CALL:') for s in k)]
                construct = '%s -> %s section of %s' % (fname, kind, cont)
                if walker:
                    # e.g. g_struct_get_field_offset (info, blob->n_fields) + n * function_blob_size
                    call = [s for k in walker for s in k if s.startswith('CALL:')][0]
                    rest = {k: v for k, v in got.items() if k not in walker}
                    exp_rest = {}
                    if has_n:
                        exp_rest = {tuple(sorted(('n', hsize(kind)))): 1}
                    fields_cnt = [cnt for (k, cnt, cb) in lay['sections'] if k == 'FIELD']
                    preceding = [k for (k, cnt, cb) in lay['sections']][:[k for (k, c_, b_) in lay['sections']].index(kind)]
                    ok = rest == exp_rest and preceding == ['FIELD'] and fields_cnt and call.endswith(',%s)' % fields_cnt[0]) and 'field_offset' in call
                    r1.check(ok, construct, rel, tu.line(st),
                             'offset %s does not equal "end of the field section + n*%s": %s' % (fmt(got), hsize(kind), call), detail=fmt(got))
                    continue
                r1.check(got == exp, construct, rel, tu.line(st),
                         '%s computes offset = %s but the writer lays the %s section out at %s: the accessor reads a different blob than '
                         'the one the compiler wrote (missing/extra term: %s)' % (fname, fmt(got), kind, fmt(exp), fmt(padd(exp, got, -1))),
                         detail=fmt(got))
    r1.exhaustive = True

    # ------------------------------------------------------------------ R1b field walkers
    r1b = ctx.rule('R1b', 'field walkers advance by field_blob_size plus callback_blob_size for embedded callbacks; plain products only where no callback can be embedded', floor=3)
    gp = ctx.c.tu('girepository/girparser.c')
    sf = gp.func('start_function')
    emb_states = set()
    for sw in [n for n in C.walk(gp.body(sf)) if n.get('kind') == 'SwitchStmt']:
        for labels, stmts in C.switch_cases(gp, sw):
            if any('in_embedded_state' in gp.text_of(s) for s in stmts):
                emb_states |= set(l for l in labels if l.startswith('STATE_'))
    allowed_embed = set(s.replace('STATE_', '').replace('_FIELD', '') for s in emb_states)     # {'CLASS', 'STRUCT'}
    ctx.extra['containers_with_embedded_callbacks'] = sorted(allowed_embed)
    for cont, rel in FILES.items():
        if cont == 'ENUM':
            continue
        tu = ctx.c.tu(rel)
        lay = containers[cont]
        has_cb_count = any(cb for (k, cnt, cb) in lay['sections'] if k == 'FIELD')
        pstate = {'OBJECT': 'CLASS', 'INTERFACE': 'INTERFACE', 'STRUCT': 'STRUCT', 'UNION': 'UNION'}[cont]
        for fname, f in sorted(tu.functions.items()):
            if 'field_offset' not in fname or not tu.in_main_file(f):
                continue
            WS = cgsa.summarise(ctx, rel, fname)
            locs = [e for e in WS.effects if e.kind == 'local' and e.loops]

            def terms(t):
                out = []
                for x in re.split(r'\+', t.replace('(', '').replace(')', '')):
                    if x.endswith('->field_blob_size'):
                        x = 'header->field_blob_size'
                    elif x.endswith('->callback_blob_size'):
                        x = 'header->callback_blob_size'
                    if x:
                        out.append(x)
                return sorted(out)
            acc = sorted(set(e.target for e in locs if re.search(r'field_blob_size', e.value)))
            ok = len(acc) == 1
            adds = [(e.target, e.value, gsa.show(e.cond)[-80:]) for e in locs][:6]
            if ok:
                a_ = acc[0]
                EMB = r'(->|\.)has_embedded_type$'
                upd = [e for e in locs if e.target == a_ and a_ in terms(e.value)]
                emb_t = [terms(e.value) for e in upd if gsa.allowed(WS, e, [(EMB, True)])]
                emb_f = [terms(e.value) for e in upd if gsa.allowed(WS, e, [(EMB, False)])]
                full = sorted([a_, 'header->callback_blob_size', 'header->field_blob_size'])
                plain = sorted([a_, 'header->field_blob_size'])
                ok = full in emb_t and plain in emb_f and full not in emb_f and all(t_ in (full, plain) for t_ in emb_t + emb_f)
            r1b.check(ok, '%s walks fields and embedded callbacks' % fname, rel, tu.line(f), 'field walker increments: %s' % adds, detail=adds)
        if pstate in allowed_embed and not has_cb_count:
            # the container may embed callbacks but has no callback count: every accessor past the fields must use the walker
            plain = []
            for fname, f in sorted(tu.functions.items()):
                if tu.in_main_file(f) and 'n_fields*header->field_blob_size' in ns(tu.text_of(f)).replace('blob->n_fields*header', 'n_fields*header'):
                    plain.append(fname)
            r1b.check(not plain, '%s: no plain n_fields*field_blob_size' % cont, rel, 1,
                      '%s fields can embed callbacks (girparser accepts <callback> inside them) but %s skip the field section with a plain product' % (cont, plain))
        elif pstate not in allowed_embed:
            r1b.ok('%s fields cannot embed callbacks (girparser.c start_function)' % cont, rel, 1, detail=sorted(allowed_embed))

    # ------------------------------------------------------------------ R2 counts
    r2 = ctx.rule('R2', 'count accessors return the like-named member of the matching blob', floor=18)
    BLOBT = {'OBJECT': 'ObjectBlob', 'INTERFACE': 'InterfaceBlob', 'STRUCT': 'StructBlob', 'UNION': 'UnionBlob', 'ENUM': 'EnumBlob'}
    for cont, rel in FILES.items():
        tu = ctx.c.tu(rel)
        for fname, f in sorted(tu.functions.items()):
            m = re.match(r'g_\w+_info_get_n_(\w+)$', fname)
            if not m or not tu.in_main_file(f):
                continue
            rets = [n for n in C.walk(tu.body(f)) if n.get('kind') == 'ReturnStmt' and C.kids(n)]
            vals = [n for n in rets if C.strip(C.kids(n)[0]).get('kind') == 'MemberExpr']
            if not vals:
                continue
            me = C.strip(C.kids(vals[-1])[0])
            want = 'n_' + m.group(1)
            alias = {'n_methods': ('n_methods', 'n_functions'), 'n_discriminators': ('n_fields',)}
            okname = me.get('name') == want or me.get('name') in alias.get(want, ())
            r2.check(okname and C.base_record_type(me) == BLOBT[cont], '%s returns %s.%s' % (fname, BLOBT[cont], want), rel, tu.line(vals[-1]),
                     '%s returns %s.%s' % (fname, C.base_record_type(me), me.get('name')), detail='%s.%s' % (C.base_record_type(me), me.get('name')))

    # ------------------------------------------------------------------ R4 attribute table
    r4 = ctx.rule('R4', 'attribute table: writer sorts by node offset, reader compares the same key and rewinds to the first equal entry', floor=4)
    gb = ctx.c.tu('girepository/gibaseinfo.c')
    cmpf = gb.func('cmp_attribute')
    mems = sorted(set(n.get('name') for n in C.walk(gb.body(cmpf)) if n.get('kind') == 'MemberExpr'))
    r4.check(mems == ['offset'], 'cmp_attribute compares AttributeBlob.offset', 'girepository/gibaseinfo.c', gb.line(cmpf), 'cmp_attribute compares %s' % mems, detail=mems)
    ff = gb.func('_attribute_blob_find_first')
    fb = gb.body(ff)
    loops = [n for n in C.walk(fb) if n.get('kind') in ('WhileStmt', 'ForStmt', 'DoStmt')]
    cond = ns(gb.text_of(C.kids(loops[0])[0])) if loops else ''
    okrw = bool(re.match(r'^(\w+)>=(\w+)&&\1->offset==(\w+)$', cond)) or bool(re.match(r'^(\w+)>(\w+)&&\(\1-1\)->offset==(\w+)$', cond))
    r4.check(okrw, 'rewind includes the first table entry', 'girepository/gibaseinfo.c',
             gb.line(ff), 'rewind loop condition is `%s`: when the first attribute of the table belongs to the node it is never reached' % cond, detail=cond)
    bs = C.calls(fb, 'bsearch')
    r4.check(len(bs) == 1 and C.declref(C.call_args(bs[0])[-1]) == 'cmp_attribute' and 'header->n_attributes' in ns(gb.text_of(C.call_args(bs[0])[2])),
             'binary search over all n_attributes with cmp_attribute', 'girepository/gibaseinfo.c', gb.line(ff), 'bsearch call changed')
    # every attribute iterator stops at the first entry whose key differs from the key it searched for
    its = 0
    for rel in ('girepository/gibaseinfo.c', 'girepository/gicallableinfo.c'):
        tu = ctx.c.tu(rel)
        for fname, f in sorted(tu.functions.items()):
            if fname == '_attribute_blob_find_first' or not tu.in_main_file(f) or tu.body(f) is None or not C.calls(tu.body(f), '_attribute_blob_find_first'):
                continue
            S = cgsa.summarise(ctx, rel, fname, opaque={'_attribute_blob_find_first'})
            keys = set(e.args[1] for e in gsa.find(S, 'call', r'^_attribute_blob_find_first$') if e.args and len(e.args) > 1)
            succ = [e for e in gsa.find(S, 'return') if e.value not in ('0', 'NULL') and e.fn == fname]
            its += 1
            for e in succ:
                cmpd = []
                differs = {}
                for a in gsa.atoms(e.cond):
                    m = re.match(r'^(.*)->offset == (.*)$', a)
                    if m:
                        cmpd.append((a, m.group(2)))
                        differs[a] = False
                    elif re.match(r'^(.*)->offset$', a):      # `x->offset != 0` is the truth of x->offset
                        cmpd.append((a, '0'))
                        differs[a] = True
                strict = not gsa.can_hold(e.cond, differs)
                r4.check(bool(cmpd) and strict and set(k for a, k in cmpd) == keys, '%s: iteration ends where the node offset differs from the searched key' % fname,
                         rel, e.line, '%s searches the attribute table for %s but a successful step only requires the entry offset to equal %s: '
                         'attributes of another node are reported (or the node\'s own are not)' % (fname, sorted(keys), sorted(set(k for a, k in cmpd))),
                         detail={'keys': sorted(keys), 'compared': sorted(set(k for a, k in cmpd))})
    if its < 2:
        raise AnalysisError('attribute iterators not found (expected g_base_info_iterate_attributes and g_callable_info_iterate_return_attributes)')
    # writer side: nodes_with_attributes sorted by offset before write_attributes
    wm = gm.func('_g_ir_module_build_typelib')
    srt = [c for c in C.calls(gm.body(wm), ('g_list_sort', 'g_list_sort_with_data'))]
    sort_ok = False
    for c in srt:
        fnn = C.declref(C.call_args(c)[1])
        if fnn and fnn in gm.functions:
            ms = sorted(set(n.get('name') for n in C.walk(gm.body(gm.functions[fnn])) if n.get('kind') == 'MemberExpr'))
            sort_ok = sort_ok or ms == ['offset']
    r4.check(sort_ok, 'writer sorts attributed nodes by offset', GM, gm.line(wm), 'the attribute table is not sorted by node offset before it is written')

    # ------------------------------------------------------------------ R6 enumerator values keep their sign
    r6 = ctx.rule('R6', 'a stored enumerator value is widened to 64 bits with the signedness recorded in ValueBlob.unsigned_value '
                  '(typed conversion chain from ValueBlob.value to the returned gint64)', floor=2)
    ev = ctx.c.tu(FILES['ENUM'])

    def tname(n):
        t = n.get('type', {})
        return t.get('desugaredQualType') or t.get('qualType') or ''

    def is_unsigned(t):
        return t.startswith('unsigned') or t in ('guint', 'guint32', 'guint64', 'gulong', 'gsize', 'guint16', 'guint8')

    def is_64(t):
        return t in ('long', 'unsigned long', 'long long', 'unsigned long long', 'gint64', 'guint64')

    def uv_polarity(cond, pol):
        c = C.strip(cond)
        while c.get('kind') == 'UnaryOperator' and c.get('opcode') == '!':
            pol = not pol
            c = C.strip(C.kids(c)[0])
        if c.get('kind') == 'BinaryOperator' and c.get('opcode') in ('==', '!='):
            a, b = [C.strip(x) for x in C.kids(c)]
            lit = C.int_value(b) if a.get('kind') == 'MemberExpr' else C.int_value(a)
            me = a if a.get('kind') == 'MemberExpr' else b
            if lit is not None and me.get('kind') == 'MemberExpr':
                truth = (lit != 0) if c.get('opcode') == '==' else (lit == 0)
                return me, (pol if truth else not pol)
            return None, None
        return c, pol

    for fname, f in sorted(ev.functions.items()):
        if not ev.in_main_file(f) or ev.body(f) is None:
            continue
        for M in C.walk(ev.body(f)):
            if not (M.get('kind') == 'MemberExpr' and M.get('name') == 'value' and C.base_record_type(M) == 'ValueBlob'):
                continue
            chain = [tname(M)]
            cur = M
            while True:
                par = ev.par(cur)
                if par is None:
                    break
                k = par.get('kind')
                if k in ('ImplicitCastExpr', 'CStyleCastExpr', 'ParenExpr'):
                    if par.get('castKind') != 'LValueToRValue' and k != 'ParenExpr':
                        chain.append(tname(par))
                elif k == 'ConditionalOperator' and cur is not C.kids(par)[0]:
                    chain.append(tname(par))
                else:
                    break
                cur = par
            if not any(is_64(t) for t in chain):
                continue            # not widened here
            pol = None
            for cond, p_, origin in C.guards(ev, M):
                me, pp = uv_polarity(cond, p_)
                if me is not None and me.get('kind') == 'MemberExpr' and me.get('name') == 'unsigned_value':
                    pol = pp
            first64 = min(i for i, t in enumerate(chain) if is_64(t))
            narrow = chain[1:first64]
            if pol is False:
                ok = not any(is_unsigned(t) for t in narrow)
                why = 'on the path where unsigned_value is 0 the signed 32-bit value passes through %s before it is widened: negative values come out as 2^32-|v|' % [t for t in narrow if is_unsigned(t)]
            elif pol is True:
                ok = any(is_unsigned(t) for t in narrow)
                why = 'on the path where unsigned_value is 1 the value is sign-extended (conversion chain %s): values above 2^31-1 come out negative' % chain
            else:
                ok = False
                why = 'ValueBlob.value is widened to 64 bits without consulting ValueBlob.unsigned_value (conversion chain %s)' % chain
            r6.check(ok, '%s: %s-path conversion %s' % (fname, {True: 'unsigned', False: 'signed', None: 'unguarded'}[pol], '->'.join(chain)), FILES['ENUM'], ev.line(M), why,
                     detail={'chain': chain, 'unsigned_value': pol})

    # ------------------------------------------------------------------ R7 g-ir-generate writes every element type of a container
    r7 = ctx.rule('R7', 'g-ir-generate descends into exactly the parameter types the compiler stored for each container tag '
                  '(arity from the G_IR_NODE_TYPE writer; indices 0..arity-1, each fetched type is the one written)', floor=4)
    arity = {}
    for sw in C.walk(gn.body(gn.func('_g_ir_node_build_typelib'))):
        if sw.get('kind') != 'SwitchStmt' or not re.search(r'type->tag$', ns(gn.text_of(C.kids(sw)[0]))):
            continue
        for labels, stmts in C.switch_cases(gn, sw):
            idx = set()
            for st in stmts:
                for c in C.calls(st, '_g_ir_node_build_typelib'):
                    m = re.search(r'parameter_type(\d)', gn.text_of(C.call_args(c)[0]))
                    if m:
                        idx.add(int(m.group(1)))
            for lb in labels:
                if lb.startswith('GI_TYPE_TAG_') and idx:
                    arity[lb] = len(idx)
    if sorted(arity) != ['GI_TYPE_TAG_ARRAY', 'GI_TYPE_TAG_GHASH', 'GI_TYPE_TAG_GLIST', 'GI_TYPE_TAG_GSLIST']:
        raise AnalysisError('girnode.c: container type tags of the G_IR_NODE_TYPE writer not recognised: %s' % sorted(arity))
    gwt = ctx.c.tu('girepository/girwriter.c')
    WT = cgsa.summarise(ctx, 'girepository/girwriter.c', 'write_type_info')
    tag_atoms = [a for a in WT.atoms() if re.search(r'== GI_TYPE_TAG_\w+$', a) or re.search(r'< GI_TYPE_TAG_ARRAY$', a)]
    for tg, n in sorted(arity.items()):
        val = dict((a, a.endswith('== ' + tg)) for a in tag_atoms)
        rec = [e for e in gsa.find(WT, 'call', r'^write_type_info$') if gsa.can_hold(e.cond, val)]
        got = sorted(set(e.args[1] for e in rec if e.args and len(e.args) > 1))
        m_ = [re.match(r'^g_type_info_get_param_type\((\w+),(\d+)\)$', g) for g in got]
        want = list(range(n))
        r7.check(all(m_) and sorted(int(x.group(2)) for x in m_ if x) == want, '%s: element types %s are written' % (tg, want), 'girepository/girwriter.c',
                 rec[0].line if rec else gwt.line(gwt.func('write_type_info')),
                 'write_type_info writes %s for a %s type, the typelib stores parameter types %s: the generated GIR names a different element type than the API reports' % (got, tg, want),
                 detail=got)

    # ------------------------------------------------------------------ R5 g-ir-generate indices
    r5 = ctx.rule('R5', 'g-ir-generate writes closure/destroy indices for every index >= 0', floor=2)
    gw = ctx.c.tu('girepository/girwriter.c')
    wc = gw.func('write_callable_info')
    for key, getter in (('closure', 'g_arg_info_get_closure'), ('destroy', 'g_arg_info_get_destroy')):
        found = False
        for c in C.calls(gw.body(wc), 'xml_printf'):
            a = C.call_args(c)
            if len(a) > 1 and (C.string_value(a[1]) or '').strip().startswith('%s=' % key):
                g = [(ns(gw.text_of(x)), pol) for x, pol, o in C.guards(gw, c, stop=None)]
                conds = [t for t, pol in g if getter in t and pol]
                found = True
                r5.check(any(t.endswith('>=0') or t.endswith('>-1') for t in conds), '%s written for index 0' % key, 'girepository/girwriter.c', gw.line(c),
                         '%s="…" is written only when %s: argument index 0 is a valid index and is dropped' % (key, conds), detail=conds)
        if not found:
            raise AnalysisError('girwriter.c: xml_printf for %s not found' % key)
