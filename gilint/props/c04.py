"""C04 — each public C symbol is described once, under the right name and owner (structural clauses)."""
import ast
import re

from ..core import AnalysisError
from .. import pyfront as P

EXPLANATION = ('Mostly value-level (prefix arithmetic over arbitrary names) and therefore not decided; the clauses visible in the shape of the '
               'code are: every node built from a C symbol receives that symbol\'s identifier verbatim as c:identifier / c:type (argument '
               'binding through the ast constructors, including the typedef that promotes a tagged struct); underscore and foreign symbols '
               'are dropped; every pairing precondition of methods and constructors has an unconditional rejecting row; prefix matches are '
               'ranked current-namespace-first and the best one is taken; Namespace.track/remove are inverses; moved-to compatibility copies '
               'are marked on exactly one side.')

TR = 'transformer'
MT = 'maintransformer'


def check(ctx):
    py = ctx.py
    tm = py.mod(TR)
    mt = py.mod(MT)
    am = py.mod('ast')

    # ------------------------------------------------------------------ R1 identity preserved
    r1 = ctx.rule('R1', 'original C identifiers are passed verbatim into the model', floor=9)
    sites = [
        ('Transformer._create_function', 'ast.Function', 'Function', 'symbol', 'symbol.ident'),
        ('Transformer._create_function_macro', 'ast.FunctionMacro', 'FunctionMacro', 'symbol', 'symbol.ident'),
        ('Transformer._create_const', 'ast.Constant', 'Constant', 'ctype', 'symbol.ident'),
        ('Transformer._create_enum', 'klass', 'Enum', 'ctype', 'symbol.ident'),
        ('Transformer._create_enum', 'ast.Member', 'Member', 'symbol', 'child.ident'),
        ('Transformer._create_callback', 'ast.Callback', 'Callback', 'ctype', 'symbol.ident'),
        ('Transformer._create_typedef', 'ast.Alias', 'Alias', 'ctype', 'symbol.ident'),
    ]
    for fn, callee, cls, param, want in sites:
        f = py.func(TR, fn)
        cs = [c for c in P.calls_in(f) if P.call_name(c) == callee]
        if not cs:
            raise AnalysisError('%s: no %s(...) construction' % (fn, callee))
        for c in cs:
            b = P.bind_call(c, py.func('ast', '%s.__init__' % cls))
            r1.check(P.src(b.get(param)) == want, '%s: %s(%s=%s)' % (fn.split('.')[1], cls, param, want), tm.rel, c.lineno,
                     '%s builds %s with %s=%s: the GIR no longer carries the original C name' % (fn, cls, param, P.src(b.get(param))), detail=P.src(b.get(param)))
    tc = py.func(TR, 'Transformer._create_typedef_compound')
    ctor = [c for c in P.calls_in(tc) if P.call_name(c) == 'compound_class']
    r1.check(len(ctor) == 2 and all(len(c.args) >= 2 and P.src(c.args[1]) == 'symbol.ident' for c in ctor), 'typedef compound built with the typedef name as c:type', tm.rel, tc.lineno,
             'compound_class(...) ctype arguments: %s' % [P.src(c.args[1]) for c in ctor if len(c.args) > 1])
    promo = [e for e in P.effects(tc) if e.kind == 'store' and e.target in ('compound.name', 'compound.ctype')]
    pn = [e for e in promo if e.target == 'compound.name' and e.value == 'name']
    pc = [e for e in promo if e.target == 'compound.ctype' and e.value == 'symbol.ident']
    r1.check(len(pn) == 1 and len(pc) == 1 and pn[0].gtexts() == pc[0].gtexts(), 'a struct promoted by its typedef takes the typedef name AND c:type', tm.rel, tc.lineno,
             'when a struct body precedes its typedef the compound is promoted with name=%s and ctype=%s: the record is written with the struct tag (_FooBar) as c:type and '
             'namespace.ctypes is keyed by the tag' % ([e.value for e in pn], [e.value for e in pc]), detail=[repr(e) for e in promo])
    tn = py.func(TR, 'Transformer._create_tag_ns_compound')
    cc = [c for c in P.calls_in(tn) if P.call_name(c) == 'compound_class']
    r1.check(len(cc) == 1 and P.src(cc[0].args[0]) == 'None' and P.src(cc[0].args[1]) == 'symbol.ident', 'tag-namespace compound keeps the tag as provisional c:type and no name', tm.rel,
             tn.lineno, 'tag compound construction changed')

    # ------------------------------------------------------------------ R2 underscore and foreign exclusion
    r2 = ctx.rule('R2', 'underscore-prefixed and foreign symbols are left out', floor=7)
    for fn in ('_create_function', '_create_function_macro', '_create_const'):
        f = py.func(TR, 'Transformer.' + fn)
        first = [s for s in f.body if not (isinstance(s, ast.Expr) and isinstance(s.value, ast.Constant))][0]
        ok = isinstance(first, ast.If) and P.src(first.test) == "symbol.ident.startswith('_')" and len(first.body) == 1 and isinstance(first.body[0], ast.Return) and P.src(first.body[0].value) == 'None'
        r2.check(ok, '%s drops underscore symbols first' % fn, tm.rel, f.lineno, '%s does not start by returning None for identifiers that begin with an underscore' % fn)
    ss = py.func(TR, 'Transformer._strip_symbol')
    raises = [n for n in P.walk_no_nested(ss) if isinstance(n, ast.Raise)]
    r2.check(any(any(g.text() == 'ns != self._namespace' for g in P.guards(r_)) for r_ in raises), '_strip_symbol rejects symbols of other namespaces', tm.rel, ss.lineno,
             'no raise under `ns != self._namespace`')
    si = py.func(TR, 'Transformer.strip_identifier')
    rets = [n for n in P.walk_no_nested(si) if isinstance(n, ast.Return) and n.value is not None and P.src(n.value) != 'None']
    r2.check(rets and all(any(g.text() == 'ns is self._namespace' for g in P.guards(r_)) for r_ in rets), 'strip_identifier returns only for the current namespace', tm.rel, si.lineno,
             'strip_identifier can return a name for a foreign namespace')
    r2.check(any(isinstance(n, ast.Raise) for n in P.walk_no_nested(si)), 'strip_identifier raises for foreign identifiers', tm.rel, si.lineno, 'no raise in strip_identifier')
    pf = py.func(MT, 'MainTransformer._pair_function')
    first = [s for s in pf.body if not (isinstance(s, ast.Expr) and isinstance(s.value, ast.Constant))][0]
    r2.check(isinstance(first, ast.If) and "func.symbol.startswith('_') or func.is_type_meta_function()" == P.src(first.test) and isinstance(first.body[0], ast.Return),
             '_pair_function skips internal and get_type functions', mt.rel, pf.lineno, 'first statement: %s' % P.src(first)[:80])
    order = [P.call_name(c) for c in P.calls_in(pf) if (P.call_name(c) or '').startswith('self._is_') or (P.call_name(c) or '').startswith('self._pair_static')]
    r2.check(order == ['self._is_constructor', 'self._is_method', 'self._pair_static_method'], 'constructor, then method, then static pairing', mt.rel, pf.lineno, 'pairing order: %s' % order)
    pp = py.func(TR, 'Transformer.parse')
    ex = [h for n in P.walk_no_nested(pp) if isinstance(n, ast.Try) for h in n.handlers]
    r2.check(any(P.src(h.type) == 'TransformerException' and isinstance(h.body[-1], ast.Continue) for h in ex), 'foreign symbols are skipped with a warning', tm.rel, pp.lineno,
             'parse() no longer skips symbols that raise TransformerException')

    # ------------------------------------------------------------------ R3 pairing guards
    r3 = ctx.rule('R3', 'method/constructor preconditions each have an unconditional rejecting row', floor=9)
    im = py.func(MT, 'MainTransformer._is_method')
    falses = []
    for n in P.walk_no_nested(im):
        if isinstance(n, ast.Return) and P.src(n.value) == 'False':
            falses.append([g.text() for g in P.guards(n) if g.kind == 'if'])
    need = {
        'no parameters': 'not func.parameters',
        'first parameter is not a class/interface/record/union/boxed': 'not isinstance(target, (ast.Class, ast.Interface, ast.Record, ast.Union, ast.Boxed))',
        'type of another namespace': 'target.namespace != self._namespace',
        'out/inout first parameter': 'first.direction in (ast.PARAM_DIRECTION_OUT, ast.PARAM_DIRECTION_INOUT)',
        'multiple indirection': "first.type.ctype is not None and first.type.ctype.count('*') > 1",
    }
    for what, atom in sorted(need.items()):
        r3.check([atom] in falses, '_is_method rejects: %s' % what, mt.rel, im.lineno,
                 'there is no `return False` guarded by exactly `%s` (rows: %s): a function whose first parameter violates this is still made a method (of a type it does not '
                 'belong to)' % (atom, [f_ for f_ in falses if any(atom in x for x in f_)]), detail=atom)
    r3.check(['not func.is_method', 'not subsymbol.startswith(uscored_prefix)'] in falses, '_is_method: un-annotated functions must carry the type\'s prefix', mt.rel, im.lineno,
             'prefix test rows: %s' % [f_ for f_ in falses if any('uscored_prefix' in x for x in f_)])
    ic = py.func(MT, 'MainTransformer._is_constructor')
    cf = []
    for n in P.walk_no_nested(ic):
        if isinstance(n, ast.Return) and P.src(n.value) == 'False':
            cf.append([g.text() for g in P.guards(n) if g.kind == 'if'])
    for what, atom in (('foreign origin type', 'origin_node.namespace != self._namespace'), ('no origin type', 'origin_node is None'),
                       ('takes its own type as first argument', 'first_arg is not None and first_arg.gi_name == origin_node.gi_name'),
                       ('ancestor walk ends without meeting the return type', 'parent is None'), ('non-class return type differs', 'origin_node != target')):
        r3.check(any(atom in x for f_ in cf for x in f_), '_is_constructor rejects: %s' % what, mt.rel, ic.lineno, 'no `return False` under %s' % atom, detail=atom)

    # ------------------------------------------------------------------ R4 bookkeeping symmetry
    r4 = ctx.rule('R4', 'Namespace.track / remove / float are inverses; moved-to marked on one side', floor=6)
    tk, rm, fl = py.func('ast', 'Namespace.track'), py.func('ast', 'Namespace.remove'), py.func('ast', 'Namespace.float')

    def maps(f, add):
        out = {}
        for n in P.walk_no_nested(f):
            tgt = None
            if add and isinstance(n, ast.Assign) and isinstance(n.targets[0], ast.Subscript) and P.src(n.targets[0].value).startswith('self.'):
                tgt = n.targets[0]
            elif not add and isinstance(n, ast.Delete) and isinstance(n.targets[0], ast.Subscript) and P.src(n.targets[0].value).startswith('self.'):
                tgt = n.targets[0]
            if tgt is not None and P.src(tgt.slice).startswith('node.'):
                g = [x.text() for x in P.guards(n) if x.kind == 'if' and x.polarity]
                out[(P.src(tgt.value), P.src(tgt.slice))] = g[-1:] if g else []
        return out
    a, d = maps(tk, True), maps(rm, False)
    for key in sorted(set(a) | set(d)):
        ga, gd = a.get(key), d.get(key)
        norm = lambda g: [re.sub(r'^not \((.*)\)$', r'\1', x) for x in (g or [])]
        r4.check(ga is not None and gd is not None and norm(ga) == norm(gd), 'track/remove agree on %s[%s]' % key, am.rel, tk.lineno,
                 '%s[%s] is %s by track() under %s and %s by remove() under %s' % (key[0], key[1], 'set' if ga is not None else 'not set', ga, 'deleted' if gd is not None else 'not deleted', gd),
                 detail={'track': ga, 'remove': gd})
    fs = [P.src(s) for s in fl.body if not (isinstance(s, ast.Expr) and isinstance(s.value, ast.Constant))]
    r4.check(fs[-3:] == ['self.remove(node)', 'self.symbols[symbol] = node', 'node.namespace = self'], 'float() = remove() but keeps symbol lookup and back-reference', am.rel, fl.lineno, 'float body: %s' % fs)
    mv = []
    for mname, f in py.methods(MT, 'MainTransformer').items():
        for e in P.effects(f):
            if e.kind == 'store' and e.target.endswith('.moved_to'):
                mv.append((mname, e.target, e.value))
    r4.check(len(mv) == 2 and all(v != 'None' for m_, t, v in mv), 'moved-to set once per compatibility copy', mt.rel, 1, 'moved_to stores: %s' % mv, detail=mv)

    # ------------------------------------------------------------------ R5 current namespace wins among prefix matches
    r5 = ctx.rule('R5', 'prefix matches ranked (current namespace, prefix length); the best match is taken', floor=4)
    sm = py.func(TR, 'Transformer._sort_matches')
    rets = [(P.src(n.value), [g.text() for g in P.guards(n) if g.kind == 'if']) for n in P.walk_no_nested(sm) if isinstance(n, ast.Return)]
    ok = len(rets) == 2
    if ok:
        cur = [v for v, g in rets if any(x == 'val[0] == self._namespace' for x in g)]
        oth = [v for v, g in rets if any(x == 'not (val[0] == self._namespace)' for x in g)]
        ok = cur == ['(1, val[2])'] and oth == ['(0, val[2])']
    r5.check(ok, 'sort key = (is current namespace, prefix length)', tm.rel, sm.lineno,
             '_sort_matches returns %s: the current namespace must outrank any included namespace, whatever the prefix lengths — otherwise a symbol such as gdk_pixbuf_get_from_surface '
             'scanned for Gdk is attributed to an included GdkPixbuf and dropped as foreign' % rets, detail=rets)
    sp = py.func(TR, 'Transformer._split_c_string_for_namespace_matches')
    srt = [c for c in P.calls_in(sp) if P.src(c.func) == 'matches.sort']
    r5.check(len(srt) == 1 and [P.src(k.value) for k in srt[0].keywords if k.arg == 'key'] == ['self._sort_matches'] and not any(k.arg == 'reverse' for k in srt[0].keywords),
             'matches sorted ascending with that key', tm.rel, sp.lineno, 'sort call: %s' % [P.src(c) for c in srt])
    ap_ = [c for c in P.calls_in(sp) if P.src(c.func) == 'matches.append']
    r5.check(len(ap_) == 1 and P.src(ap_[0].args[0]) == '(ns, name[len(prefix):], len(prefix))', 'match = (namespace, name without prefix, prefix length)', tm.rel, sp.lineno,
             'match tuple: %s' % [P.src(c.args[0]) for c in ap_])
    sc = py.func(TR, 'Transformer.split_csymbol')
    r5.check([P.src(n.value) for n in P.walk_no_nested(sc) if isinstance(n, ast.Return)] == ['matches[-1]'], 'split_csymbol takes the highest-ranked match', tm.rel, sc.lineno, 'split_csymbol return changed')
