"""C04 — each public C symbol is described once, under the right name and owner (structural clauses)."""
import ast
import re

from ..core import AnalysisError
from .. import pyfront as P
from .. import gsa

EXPLANATION = ('Mostly value-level (prefix arithmetic over arbitrary names) and therefore not decided; the clauses visible in the shape of the '
               'code are: every node built from a C symbol receives that symbol\'s identifier verbatim as c:identifier / c:type (argument '
               'binding through the ast constructors, including the typedef that promotes a tagged struct); underscore and foreign symbols '
               'are dropped; every pairing precondition of methods and constructors has an unconditional rejecting row; prefix matches are '
               'ranked current-namespace-first and the best one is taken; Namespace.track/remove are inverses; moved-to compatibility copies '
               'are marked on exactly one side.')

TR = 'transformer'
MT = 'maintransformer'


def check(ctx):
    py = ctx.py
    tm = py.mod(TR)
    mt = py.mod(MT)
    am = py.mod('ast')

    # ------------------------------------------------------------------ R1 identity preserved
    r1 = ctx.rule('R1', 'original C identifiers are passed verbatim into the model', floor=9)
    sites = [
        ('Transformer._create_function', 'ast.Function', 'Function', 'symbol', 'symbol.ident'),
        ('Transformer._create_function_macro', 'ast.FunctionMacro', 'FunctionMacro', 'symbol', 'symbol.ident'),
        ('Transformer._create_const', 'ast.Constant', 'Constant', 'ctype', 'symbol.ident'),
        ('Transformer._create_enum', 'klass', 'Enum', 'ctype', 'symbol.ident'),
        ('Transformer._create_enum', 'ast.Member', 'Member', 'symbol', 'child.ident'),
        ('Transformer._create_callback', 'ast.Callback', 'Callback', 'ctype', 'symbol.ident'),
        ('Transformer._create_typedef', 'ast.Alias', 'Alias', 'ctype', 'symbol.ident'),
    ]
    for fn, callee, cls, param, want in sites:
        # gated summary with private helpers inlined: the construction may sit in an extracted helper; locals are copy-propagated
        FS = gsa.summarise(ctx, TR, fn, depth=1)
        pat = r'^(%s|ast\.(Enum|Bitfield))$' % re.escape(callee) if callee == 'klass' else r'^%s$' % re.escape(callee)
        cs = [e for e in gsa.find(FS, 'call', pat) if e.vnode is not None]
        if not cs:
            raise AnalysisError('%s: no %s(...) construction' % (fn, callee))
        for e in cs:
            b = P.bind_call(e.vnode, py.func('ast', '%s.__init__' % cls))
            got = gsa._unparse(b.get(param)) if b.get(param) is not None else None
            want_ = want.replace('symbol.', FS.P(1) + '.') if want.startswith('symbol.') else want
            r1.check(got == want_ or (want.startswith('child.') and got is not None and re.match(r'^\w+\.ident$', got)), '%s: %s(%s=%s)' % (fn.split('.')[1], cls, param, want), tm.rel, e.line,
                     '%s builds %s with %s=%s: the GIR no longer carries the original C name' % (fn, cls, param, got), detail=got)
    tc = py.func(TR, 'Transformer._create_typedef_compound')
    ctor = [c for c in P.calls_in(tc) if P.call_name(c) == 'compound_class']
    r1.check(len(ctor) == 2 and all(len(c.args) >= 2 and P.src(c.args[1]) == 'symbol.ident' for c in ctor), 'typedef compound built with the typedef name as c:type', tm.rel, tc.lineno,
             'compound_class(...) ctype arguments: %s' % [P.src(c.args[1]) for c in ctor if len(c.args) > 1])
    promo = [e for e in P.effects(tc) if e.kind == 'store' and e.target in ('compound.name', 'compound.ctype')]
    pn = [e for e in promo if e.target == 'compound.name' and e.value == 'name']
    pc = [e for e in promo if e.target == 'compound.ctype' and e.value == 'symbol.ident']
    r1.check(len(pn) == 1 and len(pc) == 1 and pn[0].gtexts() == pc[0].gtexts(), 'a struct promoted by its typedef takes the typedef name AND c:type', tm.rel, tc.lineno,
             'when a struct body precedes its typedef the compound is promoted with name=%s and ctype=%s: the record is written with the struct tag (_FooBar) as c:type and '
             'namespace.ctypes is keyed by the tag' % ([e.value for e in pn], [e.value for e in pc]), detail=[repr(e) for e in promo])
    TN = gsa.summarise(ctx, TR, 'Transformer._create_tag_ns_compound', inline_only=())
    tn = TN.func
    ccp, symp = TN.P(1), TN.P(2)
    cc = [e for e in TN.effects if e.kind == 'call' and e.target == ccp]
    r1.check(len(cc) >= 1 and all(len(e.args) >= 2 and e.args[0] == 'None' and e.args[1] == '%s.ident' % symp for e in cc), 'tag-namespace compound keeps the tag as provisional c:type and no name', tm.rel,
             tn.lineno, 'tag compound construction changed: %s' % [e.value for e in cc])

    # ------------------------------------------------------------------ R2 underscore and foreign exclusion
    r2 = ctx.rule('R2', 'underscore-prefixed and foreign symbols are left out', floor=7)
    for fn in ('_create_function', '_create_function_macro', '_create_const'):
        SF = gsa.summarise(ctx, TR, 'Transformer.' + fn, depth=1, opaque=('_strip_symbol', '_create_return', '_create_parameters', '_create_type_from_base', '_resolve_type_from_ctype'))
        US = r"^%s\.ident\.startswith\('_'\)$" % re.escape(SF.P(1))
        got = gsa.returns_under(SF, gsa.decide_by([(US, True)]))
        other = [e for e in SF.effects if e.kind in ('store', 'call') and e.target != '%s.ident.startswith' % SF.P(1) and gsa.ev3(e.cond, {gsa._unparse(ast.parse("%s.ident.startswith('_')" % SF.P(1), mode='eval').body): True}) is not False]
        r2.check([g[0] for g in got] == ['None'] and got[0][2] and not other, '%s drops underscore symbols first' % fn, tm.rel, SF.func.lineno,
                 '%s does not start by returning None for identifiers that begin with an underscore (returns %s, effects before: %s)' % (fn, [g[0][:40] for g in got], [e.target for e in other][:3]))
    SS = gsa.summarise(ctx, TR, 'Transformer._strip_symbol', inline_only=())
    ss = SS.func
    NSEQ = r'\[0\] == self\._namespace$|^\w+ == self\._namespace$|^\w+ is self\._namespace$'
    fr_ = [e for e in SS.effects if e.kind == 'raise' and 'TransformerException' in e.value and gsa.impossible(SS, e, [(NSEQ, True)]) and gsa.allowed(SS, e, [(NSEQ, False), (r'^@except', False)])]
    r2.check(bool(fr_), '_strip_symbol rejects symbols of other namespaces', tm.rel, ss.lineno, 'no raise exactly when the matched namespace is not the current one')
    okret = all(gsa.ev3(g, gsa.valuation(SS, [(NSEQ, False)], extra_atoms=gsa.atoms(g))) is False for g, n in SS.returns)
    r2.check(bool(SS.returns) and okret, '_strip_symbol returns only for the current namespace', tm.rel, ss.lineno, '_strip_symbol can return a name for a foreign namespace')
    SI = gsa.summarise(ctx, TR, 'Transformer.strip_identifier', inline_only=())
    si = SI.func
    rets = [(g, n) for g, n in SI.returns if gsa._unparse(n) != 'None']
    okret = all(gsa.ev3(g, gsa.valuation(SI, [(NSEQ, False)], extra_atoms=gsa.atoms(g))) is False for g, n in rets)
    r2.check(bool(rets) and okret, 'strip_identifier returns only for the current namespace', tm.rel, si.lineno, 'strip_identifier can return a name for a foreign namespace')
    r2.check(any(e.kind == 'raise' and 'TransformerException' in e.value and 'foreign' in e.value for e in SI.effects), 'strip_identifier raises for foreign identifiers', tm.rel, si.lineno, 'no raise in strip_identifier')
    PF = gsa.summarise(ctx, MT, 'MainTransformer._pair_function', opaque=('_is_constructor', '_is_method', '_pair_static_method', '_pair_constructor', '_pair_method'))
    pf = PF.func
    fpar = re.escape(PF.P(1))
    INTERNAL = [r"^%s\.symbol\.startswith\('_'\)$" % fpar, r'^%s\.is_type_meta_function\(\)$' % fpar]
    pcalls = [e for e in PF.effects if e.kind == 'call' and re.search(r'^self\._(is_|pair_)', e.target)]
    okint = bool(pcalls) and all(all(gsa.impossible(PF, e, [(pat, True)]) for pat in INTERNAL) for e in pcalls)
    r2.check(okint, '_pair_function skips internal and get_type functions', mt.rel, pf.lineno, 'pairing helpers are reached for underscore-prefixed or get_type functions')
    ctor = [e for e in pcalls if e.target == 'self._is_constructor']
    meth = [e for e in pcalls if e.target == 'self._is_method']
    stat = [e for e in pcalls if e.target == 'self._pair_static_method']
    okord = bool(ctor) and bool(meth) and bool(stat) and all(gsa.impossible(PF, e, [(r'_is_constructor\(', True)]) for e in meth + stat) and all(gsa.impossible(PF, e, [(r'_is_method\(', True)]) for e in stat) \
        and all(c.seq < m_.seq for c in ctor for m_ in meth)
    r2.check(okord, 'constructor, then method, then static pairing', mt.rel, pf.lineno, 'pairing order: %s' % [(e.target, e.when()[:100]) for e in pcalls])
    pp = py.func(TR, 'Transformer.parse')
    # gated summary of parse(): when _traverse_one raises TransformerException the symbol is reported and nothing is appended for it
    PP = gsa.summarise(ctx, TR, 'Transformer.parse', opaque=('_traverse_one', '_append_new_node', 'strip_identifier'))
    symp_ = PP.P(1)
    tr1 = [e for e in gsa.find(PP, 'call', r'^self\._traverse_one$')]
    EXC = [a_ for a_ in PP.atoms() if a_.startswith('@except:') and 'TransformerException' in a_]
    in_loop = [e for e in PP.effects if tr1 and any(l in e.loops for l in tr1[0].loops)]
    appends = [e for e in in_loop if (e.kind == 'call' and e.target == 'self._append_new_node') or (e.kind == 'store' and e.target.startswith('self._tag_ns['))]
    warns = [e for e in in_loop if e.kind == 'call' and e.target.startswith('message.warn') and any(a_ in gsa.atoms(e.cond) for a_ in EXC)]
    okskip = bool(tr1) and bool(EXC) and bool(appends) and bool(warns) and \
        all(not gsa.can_hold(e.cond, dict((a_, True) for a_ in EXC if a_ in gsa.atoms(e.cond) or True)) or not any(a_ in gsa.atoms(e.cond) for a_ in EXC) and False for e in appends)
    # simpler and exact: an append in the symbol loop is impossible once the handler of the traversal ran
    exc_loop = [a_ for a_ in EXC if any(a_ in gsa.atoms(w.cond) for w in warns)]
    okskip = bool(tr1) and bool(appends) and bool(warns) and bool(exc_loop) and all(not gsa.can_hold(e.cond, dict((a_, True) for a_ in exc_loop)) for e in appends)
    r2.check(okskip, 'foreign symbols are skipped with a warning', tm.rel, pp.lineno,
             'parse() no longer skips symbols that raise TransformerException (appends reachable after the handler: %s)' % [(e.target, e.when()[-120:]) for e in appends][:3])

    # ------------------------------------------------------------------ R3 pairing guards
    r3 = ctx.rule('R3', 'method/constructor preconditions each have an unconditional rejecting row', floor=9)
    IM = gsa.summarise(ctx, MT, 'MainTransformer._is_method', opaque=('_get_uscored_prefix', '_uscored_prefix_for_type'))
    im = IM.func
    fn_ = re.escape(IM.P(1))
    FIRST = r'%s\.parameters\[0\]' % fn_
    TGT = r'self\._transformer\.lookup_typenode\(%s\.type\)' % FIRST
    okbase = [(r'^%s\.parameters$' % fn_, True), (r'^isinstance\(%s, ast\.(Class|Interface|Record|Union|Boxed)\)$' % TGT, True), (r'^%s\.namespace == self\._namespace$' % TGT, True),
              (r'^%s\.direction == ast\.PARAM_DIRECTION_(OUT|INOUT)$' % FIRST, False), (r'^%s\.type\.ctype is None$' % FIRST, False), (r"^1 < %s\.type\.ctype\.count\('\*'\)$" % FIRST, False),
              (r'^%s\.is_method$' % fn_, True)]
    allv = gsa.truth_returns(IM, gsa.decide_by(okbase))
    r3.check(allv == [(True, True)], '_is_method accepts an annotated function with a proper instance parameter', mt.rel, im.lineno, 'baseline verdict is %s (atoms: %s)' % (allv, IM.atoms()[:12]))
    need = {
        'no parameters': [(r'^%s\.parameters$' % fn_, False)],
        'first parameter is not a class/interface/record/union/boxed': [(r'^isinstance\(%s, ast\.(Class|Interface|Record|Union|Boxed)\)$' % TGT, False)],
        'type of another namespace': [(r'^%s\.namespace == self\._namespace$' % TGT, False)],
        'out first parameter': [(r'^%s\.direction == ast\.PARAM_DIRECTION_OUT$' % FIRST, True)],
        'inout first parameter': [(r'^%s\.direction == ast\.PARAM_DIRECTION_INOUT$' % FIRST, True)],
        'multiple indirection': [(r"^1 < %s\.type\.ctype\.count\('\*'\)$" % FIRST, True)],
    }
    for what, spec in sorted(need.items()):
        for annotated in (True, False):
            got = gsa.truth_returns(IM, gsa.decide_by(spec + [(r'^%s\.is_method$' % fn_, annotated), (r'\.startswith\(', True)] + okbase))
            r3.check(got == [(False, True)], '_is_method rejects: %s (%s)' % (what, '(method) annotated' if annotated else 'by name'), mt.rel, im.lineno,
                     'with %s the verdict for %s function is %s: a function whose first parameter violates this is still made a method (of a type it does not belong to)'
                     % (what, 'an annotated' if annotated else 'an un-annotated, prefix-matching', got), detail=str(got))
    got = gsa.truth_returns(IM, gsa.decide_by([(r'^%s\.is_method$' % fn_, False), (r'\.startswith\(', False)] + okbase))
    r3.check(got == [(False, True)], '_is_method: un-annotated functions must carry the type\'s prefix', mt.rel, im.lineno, 'without the prefix and without (method) the verdict is %s' % got)
    IC = gsa.summarise(ctx, MT, 'MainTransformer._is_constructor', opaque=('_get_constructor_class', '_get_constructor_name', '_get_uscored_prefix', '_uscored_prefix_for_type', '_guess_constructor_by_name',
                                                                        '_can_have_constructors'))
    ic = IC.func
    falses = [g for g, n in IC.returns if gsa._unparse(n) == 'False']
    FD = gsa.disj(*falses)
    for what, pat, v in (('foreign origin type', r'\.namespace == self\._namespace$', False), ('no origin type', r'^self\._get_constructor_class\(.*\) is None$', True),
                         ('takes its own type as first argument', r'\.gi_name == .*\.gi_name$', True),
                         ('ancestor walk ends without meeting the return type', r'^\w+ is None$|parent.* is None$', True), ('non-class return type differs', r'^self\._get_constructor_class\(.*\) == ', False)):
        names = [a_ for a_ in gsa.atoms(FD) if re.search(pat, a_)]
        dep = bool(names) and gsa.sat(gsa.conj(gsa.assign(FD, dict((a_, v) for a_ in names)), gsa.neg(gsa.assign(FD, dict((a_, not v) for a_ in names)))))
        r3.check(dep, '_is_constructor rejects: %s' % what, mt.rel, ic.lineno, 'no `return False` that depends on %s' % pat, detail=names)

    # ------------------------------------------------------------------ R4 bookkeeping symmetry
    r4 = ctx.rule('R4', 'Namespace.track / remove / float are inverses; moved-to marked on one side', floor=6)
    tk, rm, fl = py.func('ast', 'Namespace.track'), py.func('ast', 'Namespace.remove'), py.func('ast', 'Namespace.float')

    def maps(f, add):
        out = {}
        for n in P.walk_no_nested(f):
            tgt = None
            if add and isinstance(n, ast.Assign) and isinstance(n.targets[0], ast.Subscript) and P.src(n.targets[0].value).startswith('self.'):
                tgt = n.targets[0]
            elif not add and isinstance(n, ast.Delete) and isinstance(n.targets[0], ast.Subscript) and P.src(n.targets[0].value).startswith('self.'):
                tgt = n.targets[0]
            if tgt is not None and P.src(tgt.slice).startswith('node.'):
                g = [x.text() for x in P.guards(n) if x.kind == 'if' and x.polarity]
                out[(P.src(tgt.value), P.src(tgt.slice))] = g[-1:] if g else []
        return out
    a, d = maps(tk, True), maps(rm, False)
    for key in sorted(set(a) | set(d)):
        ga, gd = a.get(key), d.get(key)
        norm = lambda g: [re.sub(r'^not \((.*)\)$', r'\1', x) for x in (g or [])]
        r4.check(ga is not None and gd is not None and norm(ga) == norm(gd), 'track/remove agree on %s[%s]' % key, am.rel, tk.lineno,
                 '%s[%s] is %s by track() under %s and %s by remove() under %s' % (key[0], key[1], 'set' if ga is not None else 'not set', ga, 'deleted' if gd is not None else 'not deleted', gd),
                 detail={'track': ga, 'remove': gd})
    fs = [P.src(s) for s in fl.body if not (isinstance(s, ast.Expr) and isinstance(s.value, ast.Constant))]
    r4.check(fs[-3:] == ['self.remove(node)', 'self.symbols[symbol] = node', 'node.namespace = self'], 'float() = remove() but keeps symbol lookup and back-reference', am.rel, fl.lineno, 'float body: %s' % fs)
    mv = []
    for mname, f in py.methods(MT, 'MainTransformer').items():
        for e in P.effects(f):
            if e.kind == 'store' and e.target.endswith('.moved_to'):
                mv.append((mname, e.target, e.value))
    r4.check(len(mv) == 2 and all(v != 'None' for m_, t, v in mv), 'moved-to set once per compatibility copy', mt.rel, 1, 'moved_to stores: %s' % mv, detail=mv)

    # ------------------------------------------------------------------ R5 current namespace wins among prefix matches
    r5 = ctx.rule('R5', 'prefix matches ranked (current namespace, prefix length); the best match is taken', floor=4)
    SM = gsa.summarise(ctx, TR, 'Transformer._sort_matches')
    sm = SM.func
    vp = SM.P(1)
    CUR = r'^%s\[0\] == self\._namespace$' % re.escape(vp)
    cur = gsa.returns_under(SM, gsa.decide_by([(CUR, True)]))
    oth = gsa.returns_under(SM, gsa.decide_by([(CUR, False)]))

    def key_of(got):
        if len(got) != 1 or not got[0][2] or not isinstance(got[0][1], ast.Tuple) or len(got[0][1].elts) != 2:
            return None
        first = py.try_fold(got[0][1].elts[0], tm)
        return (first, gsa._unparse(got[0][1].elts[1]))
    kc, ko = key_of(cur), key_of(oth)
    ok = kc is not None and ko is not None and isinstance(kc[0], int) and isinstance(ko[0], int) and kc[0] > ko[0] and kc[1] == ko[1] == '%s[2]' % vp
    r5.check(ok, 'sort key = (is current namespace, prefix length)', tm.rel, sm.lineno,
             '_sort_matches returns %s for the current namespace and %s for others: the current namespace must outrank any included namespace, whatever the prefix lengths — otherwise a symbol such as '
             'gdk_pixbuf_get_from_surface scanned for Gdk is attributed to an included GdkPixbuf and dropped as foreign' % ([g[0] for g in cur], [g[0] for g in oth]), detail=[kc, ko])
    SP = gsa.summarise(ctx, TR, 'Transformer._split_c_string_for_namespace_matches', inline_only=())
    sp = SP.func
    srt = [c for c in gsa.find(SP, 'call', r'^\w+\.sort$')]
    oks = len(srt) == 1 and srt[0].kwargs.get('key') == 'self._sort_matches' and 'reverse' not in srt[0].kwargs
    lst = srt[0].target.split('.')[0] if srt else None
    if not srt:
        # sorted(matches, key=...) whose result is what the function returns
        sc_ = [x for g, n in SP.returns if n is not None for x in ast.walk(n) if isinstance(x, ast.Call) and isinstance(x.func, ast.Name) and x.func.id == 'sorted']
        srt_txt = [gsa._unparse(x) for x in sc_]
        oks = bool(sc_) and all(len(x.args) == 1 and isinstance(x.args[0], ast.Name) and [(k.arg, gsa._unparse(k.value)) for k in x.keywords] == [('key', 'self._sort_matches')] for x in sc_)
        lst = sc_[0].args[0].id if oks else None
    r5.check(oks, 'matches sorted ascending with that key', tm.rel, sp.lineno, 'sort call: %s' % ([c.value for c in srt] or srt_txt))
    ap_ = gsa.find(SP, 'call', r'^%s\.append$' % re.escape(lst or '?'))
    okap = bool(ap_)
    for c in ap_:
        n = c.vnode.args[0] if c.vnode is not None and c.vnode.args else None
        if not (isinstance(n, ast.Tuple) and len(n.elts) == 3 and isinstance(n.elts[1], ast.Subscript) and isinstance(n.elts[1].slice, ast.Slice) and n.elts[1].slice.upper is None
                and n.elts[1].slice.lower is not None and gsa._unparse(n.elts[1].slice.lower) == gsa._unparse(n.elts[2]) and gsa._unparse(n.elts[2]).startswith('len(')):
            okap = False
    r5.check(okap, 'match = (namespace, name without prefix, prefix length)', tm.rel, sp.lineno, 'match tuples: %s' % [c.args[0][:100] for c in ap_ if c.args])
    # sibling public wrappers that only forward to the match function may stand between split_csymbol and the ranking
    fwd = [mn for mn, mf in py.methods(TR, 'Transformer').items() if mn != 'split_csymbol' and len([x for x in mf.body if not (isinstance(x, ast.Expr) and isinstance(x.value, ast.Constant))]) == 1
           and isinstance(mf.body[-1], ast.Return) and isinstance(mf.body[-1].value, ast.Call) and P.call_name(mf.body[-1].value) == 'self._split_c_string_for_namespace_matches']
    SC = gsa.summarise(ctx, TR, 'Transformer.split_csymbol', inline_only=fwd)
    rv = [gsa._unparse(n) for g, n in SC.returns]
    r5.check(len(rv) == 1 and re.search(r'^self\._split_c_string_for_namespace_matches\(.*\)\[-1\]$', rv[0]), 'split_csymbol takes the highest-ranked match', tm.rel, SC.func.lineno, 'split_csymbol returns %s' % rv)
    upper_family_rule(ctx, r5)

    # ------------------------------------------------------------------ R6 constructor return check; get-type suffixes
    r6 = ctx.rule('R6', 'constructor: returned class must be the type or an ancestor; both get-type spellings handled alike', floor=3)
    ICS = gsa.summarise(ctx, MT, 'MainTransformer._is_constructor', opaque=('_get_constructor_class', '_get_constructor_name', '_get_uscored_prefix', '_uscored_prefix_for_type', '_guess_constructor_by_name',
                                                                         '_can_have_constructors'))
    cls_atoms = [a_ for a_ in ICS.atoms() if re.match(r'^isinstance\(.*, ast\.Class\)$', a_)]
    ret_based = [a_ for a_ in cls_atoms if 'retval' in a_]
    other_cls = [a_ for a_ in cls_atoms if 'retval' not in a_ and 'parent' not in a_]
    neq = [a_ for a_ in ICS.atoms() if re.match(r'^self\._get_constructor_class\(.*\) == .*retval', a_) or re.match(r'^.*retval.* == self\._get_constructor_class\(', a_)]
    falses = gsa.disj(*[g for g, n in ICS.returns if gsa._unparse(n) == 'False'])
    okc = bool(ret_based) and bool(neq) and not gsa.can_hold(gsa.neg(falses), dict([(a_, False) for a_ in ret_based] + [(a_, False) for a_ in neq] +
                                                                                  [(a_, True) for a_ in ICS.atoms() if re.search(r'\.namespace == self\._namespace$', a_)] +
                                                                                  [(a_, False) for a_ in ICS.atoms() if re.search(r' is None$', a_)]))
    r6.check(okc, 'a non-class return type must be the constructed type itself', mt.rel, ICS.func.lineno,
             'when the returned type is not a class (boxed, record) and differs from the type the function is named after, _is_constructor can still accept it '
             '(class test on %s, equality test %s): foo_button_new_rect() returning FooRect becomes a constructor of FooButton' % (cls_atoms, neq), detail=cls_atoms)
    # the ancestor walk only follows .parent_type of classes: the owner found by prefix can be a boxed record/union (F13)
    PT = re.compile(r'^(.*)\.parent_type$')
    unguarded = []
    n_pt = 0
    for e in ICS.effects:
        for b_ in gsa.atoms(e.cond):
            mpt = PT.match(b_)
            if not mpt:
                continue
            n_pt += 1
            a_ = 'isinstance(%s, ast.Class)' % mpt.group(1)
            rest = gsa.assign(e.cond, {a_: False})
            if b_ in gsa.atoms(rest) and not gsa.equiv(gsa.assign(rest, {b_: True}), gsa.assign(rest, {b_: False})):
                unguarded.append((e.line, b_))      # the effect still depends on x.parent_type when x is not a class
    r6.check(n_pt >= 1 and not unguarded, 'parent_type is read only from classes during the ancestor walk', mt.rel, ICS.func.lineno,
             '_is_constructor evaluates %s without requiring that object to be an ast.Class: a *_new_* function that carries the prefix of a registered boxed '
             'record/union and returns a class makes the scanner abort with AttributeError instead of not pairing it' % sorted(set(b_ for l_, b_ in unguarded)),
             detail=sorted(set(unguarded))[:4])
    gdm = py.mod('gdumpparser')
    am_ = py.mod('ast')

    def suffixes(f):
        return sorted(set(n.value for n in ast.walk(f) if isinstance(n, ast.Constant) and isinstance(n.value, str) and re.match(r'^_?get_g?type$', n.value)))
    accept = suffixes(py.func('gdumpparser', 'GDumpParser._initparse_function'))
    meta = suffixes(py.func('ast', 'Function.is_type_meta_function'))
    split = suffixes(py.func('gdumpparser', 'GDumpParser._split_type_and_symbol_prefix'))
    r6.check(set(accept) == set(meta) and set(a_.lstrip('_') for a_ in accept) <= set(a_.lstrip('_') for a_ in split) and len(accept) == 2, 'get-type suffixes: recognised and stripped alike', gdm.rel, 1,
             'get-type functions are recognised by %s / %s but the symbol prefix is derived by stripping %s: a type registered through <prefix>_get_gtype gets a wrong '
             'c:symbol-prefix and its functions are not paired with it' % (accept, meta, split), detail={'accept': accept, 'meta': meta, 'split': split})
    SSP = gsa.summarise(ctx, 'gdumpparser', 'GDumpParser._split_type_and_symbol_prefix', inline_only=())
    sfx = sorted(set(re.findall(r"len\('(_get_g?type)'\)", ' '.join(gsa._unparse(n) for g, n in SSP.returns))))
    r6.check(sfx == ['_get_gtype', '_get_type'], 'symbol prefix = name minus the suffix that was actually matched', gdm.rel, SSP.func.lineno, 'suffix lengths stripped: %s' % sfx)


def upper_family_rule(ctx, rule):
    """the upper/lower-case prefix family is chosen from the FIRST character of the name only (shared with C13: constants and enumerators)"""
    SP = gsa.summarise(ctx, TR, 'Transformer._split_c_string_for_namespace_matches', depth=1)     # the prefix choice may sit in a private helper
    up = [a_ for a_ in SP.atoms() if re.search(r'\.isupper\(\)$', a_)]
    rule.check(bool(up) and all(re.search(r'\[0\]\.isupper\(\)$', a_) for a_ in up), 'upper-case prefixes selected by the first character', ctx.py.mod(TR).rel, SP.func.lineno,
               'the choice between FOO_ and foo_ prefixes tests %s: a constant with a mixed-case tail (GDK_KEY_a, GDK_KEY_Return) matches no namespace prefix and is dropped' % up, detail=up)
