"""E-attr (reader side): which XML attributes / child elements an ElementTree-based reader consults,
per element tag, and where the value goes.

Works on GIRParser (giscanner/girparser.py) and GDumpParser (giscanner/gdumpparser.py): a small
inter-procedural propagation of "which element tags can this variable hold" (from find/findall/
_find_children/_find_first_child/iteration with `.tag ==` narrowing and the dispatch dictionary),
then every `.attrib.get(K)`, `.attrib[K]`, `K in X.attrib`, `X.get(K)` is attributed to the tags of X.
"""
import ast

from .core import AnalysisError
from . import pyfront as P

NSMAP = {
    'http://www.gtk.org/introspection/core/1.0': '',
    'http://www.gtk.org/introspection/c/1.0': 'c:',
    'http://www.gtk.org/introspection/glib/1.0': 'glib:',
    'http://www.gtk.org/introspection/doc/1.0': 'doc:',
    'http://www.w3.org/XML/1998/namespace': 'xml:',
}


def norm(name):
    if isinstance(name, str) and name.startswith('{'):
        ns, local = name[1:].split('}', 1)
        if ns in NSMAP:
            return NSMAP[ns] + local
    return name


class Read(object):
    def __init__(self, tag, key, kind, method, node, var):
        self.tag = tag
        self.key = key
        self.kind = kind      # 'get' (optional) | 'index' (mandatory) | 'in' (presence test)
        self.method = method
        self.node = node      # the ast node of the read expression
        self.var = var
        self.line = node.lineno

    def __repr__(self):
        return '<Read %s/@%s %s in %s:%d>' % (self.tag, self.key, self.kind, self.method, self.line)


ANY = '*'


class ReaderModel(object):
    def __init__(self, py, modname, cname, entries):
        """entries: {method: {param: set(tags)}}"""
        self.py = py
        self.mod = py.mod(modname)
        self.modname = modname
        self.methods = py.methods(modname, cname)
        self.param_tags = {}      # method -> {param: set(tags)}
        self.reads = []
        self.child_reads = []     # (parent tag, child tag, method, line)
        self.text_reads = []
        work = []
        for m, d in entries.items():
            if m not in self.methods:
                raise AnalysisError('%s.%s missing' % (cname, m))
            self.param_tags[m] = {k: set(v) for k, v in d.items()}
            work.append(m)
        seen_rounds = 0
        while work:
            seen_rounds += 1
            if seen_rounds > 500:
                raise AnalysisError('reader tag propagation does not converge')
            m = work.pop()
            for callee, param, tags in self.analyse(m, collect=False):
                cur = self.param_tags.setdefault(callee, {}).setdefault(param, set())
                if not tags <= cur:
                    cur |= tags
                    if callee not in work:
                        work.append(callee)
        for m in sorted(self.param_tags):
            self.analyse(m, collect=True)

    # ------------------------------------------------------------------
    def fold(self, node):
        v = self.py.try_fold(node, self.mod)
        if v is None:
            # map(_corens, ('a', 'b')) / list(map(...))
            if isinstance(node, ast.Call) and P.call_name(node) == 'list' and node.args:
                return self.fold(node.args[0])
            if isinstance(node, ast.Call) and P.call_name(node) == 'map' and len(node.args) == 2 and isinstance(node.args[0], ast.Name):
                fn = node.args[0].id
                items = self.py.try_fold(node.args[1], self.mod)
                if items is not None and fn in self.mod.functions:
                    out = []
                    for it in items:
                        call = ast.Call(func=ast.Name(id=fn, ctx=ast.Load()), args=[ast.Constant(value=it)], keywords=[])
                        out.append(self.py.try_fold(call, self.mod))
                    return out
        return v

    def tags_of(self, node):
        v = self.fold(node)
        if isinstance(v, str):
            return {norm(v)}
        if isinstance(v, (list, tuple, set)):
            return set(norm(x) for x in v if isinstance(x, str))
        return None

    def analyse(self, mname, collect):
        f = self.methods[mname]
        env = {k: set(v) for k, v in self.param_tags.get(mname, {}).items()}
        dispatch = {}      # local dict var -> {tag: method}
        out_calls = []
        local_lists = {}   # var holding a list of nodes -> tags
        names_sets = {}    # local var -> folded set of tag names (e.g. `names = (...)`)

        def var_tags(name, at):
            tags = set(env.get(name, ()))
            if not tags:
                return tags
            tests = [(g.test, g.polarity) for g in P.guards(at) if g.kind in ('if', 'early')]
            # filters of an enclosing comprehension over this variable: [f(child) for child in node if child.tag in names]
            up = P.parent(at)
            while up is not None and not isinstance(up, (ast.FunctionDef, ast.AsyncFunctionDef)):
                if isinstance(up, (ast.ListComp, ast.GeneratorExp, ast.SetComp, ast.DictComp)):
                    for gen in up.generators:
                        if any(isinstance(x, ast.Name) and x.id == name for x in ast.walk(gen.target)):
                            tests.extend((c, True) for c in gen.ifs)
                up = P.parent(up)
            for t, polarity in tests:
                for cmp_ in ([t] if isinstance(t, ast.Compare) else [x for x in ast.walk(t) if isinstance(x, ast.Compare)] if isinstance(t, ast.BoolOp) and isinstance(t.op, ast.And) and polarity else []):
                    if len(cmp_.ops) != 1:
                        continue
                    if P.src(cmp_.left) != '%s.tag' % name:
                        continue
                    rhs = cmp_.comparators[0]
                    rt = self.tags_of(rhs)
                    if rt is None and isinstance(rhs, ast.Name) and rhs.id in names_sets:
                        rt = names_sets[rhs.id]
                    if rt is None:
                        continue
                    op = cmp_.ops[0]
                    if isinstance(op, (ast.Eq, ast.In)):
                        if polarity:
                            tags = (tags & rt) if ANY not in tags else set(rt)
                        else:
                            tags = tags - rt
                    elif isinstance(op, (ast.NotEq, ast.NotIn)):
                        if not polarity:
                            tags = (tags & rt) if ANY not in tags else set(rt)
                        else:
                            tags = tags - rt
            return tags

        def tag_arg(a):
            """tag names an argument stands for: a constant, or a loop variable ranging over a literal table of tag names"""
            ts = self.tags_of(a)
            if ts is None and isinstance(a, ast.Name):
                got = set()
                for lp in P.walk_no_nested(f):
                    if isinstance(lp, (ast.For, ast.comprehension)) and isinstance(lp.iter, (ast.Tuple, ast.List)) and any(x is a for x in ast.walk(lp) if isinstance(lp, ast.For)):
                        tg = lp.target
                        for el in lp.iter.elts:
                            comp = None
                            if isinstance(tg, ast.Name) and tg.id == a.id:
                                comp = el
                            elif isinstance(tg, ast.Tuple) and isinstance(el, ast.Tuple) and len(el.elts) == len(tg.elts):
                                for t_, c_ in zip(tg.elts, el.elts):
                                    if isinstance(t_, ast.Name) and t_.id == a.id:
                                        comp = c_
                            cts = self.tags_of(comp) if comp is not None else None
                            if cts is None:
                                got = None
                                break
                            got |= cts
                        if got:
                            return got
                return None
            return ts

        def children_expr(e):
            """if e evaluates to child element(s) of some variable: (parent var, tags or {ANY}, many?)"""
            if isinstance(e, ast.Call):
                nm = P.call_name(e)
                if isinstance(e.func, ast.Attribute) and e.func.attr in ('find', 'findall', 'iter', 'iterfind') and isinstance(e.func.value, ast.Name) and e.args:
                    return e.func.value.id, tag_arg(e.args[0]) or {ANY}, e.func.attr != 'find'
                if nm in ('self._find_children', 'self._find_first_child') and len(e.args) == 2 and isinstance(e.args[0], ast.Name):
                    return e.args[0].id, tag_arg(e.args[1]) or {ANY}, nm.endswith('children')
                if nm in ('enumerate', 'list', 'sorted', 'reversed') and e.args:
                    return children_expr(e.args[0])
            if isinstance(e, ast.Name) and e.id in env and e.id not in local_lists:
                return e.id, {ANY}, True      # iterating an element yields its children
            return None

        def note_children(parent_var, tags, at):
            if collect:
                for pt in var_tags(parent_var, at) or {'?'}:
                    for ct in tags:
                        self.child_reads.append((pt, ct, mname, at.lineno))

        # pass 1: bindings in source order (flow-insensitive union)
        nodes = sorted((n for n in P.walk_no_nested(f)), key=lambda n: (getattr(n, 'lineno', 0), getattr(n, 'col_offset', 0)))
        for _round in range(3):
            for n in nodes:
                if isinstance(n, ast.Assign) and len(n.targets) == 1 and isinstance(n.targets[0], ast.Name):
                    v = n.targets[0].id
                    if isinstance(n.value, ast.Dict):
                        d = {}
                        for k, val in zip(n.value.keys, n.value.values):
                            kt = self.tags_of(k)
                            if kt and P.src(val).startswith('self.'):
                                for t in kt:
                                    d[t] = P.src(val)[5:]
                        if d:
                            dispatch[v] = d
                        continue
                    ts = self.tags_of(n.value)
                    if ts is not None and isinstance(n.value, (ast.Tuple, ast.List, ast.Call)) and not children_expr(n.value):
                        names_sets[v] = ts
                    ce = children_expr(n.value)
                    if ce:
                        pv, tags, many = ce
                        if pv in env or pv in local_lists:
                            if many:
                                local_lists[v] = local_lists.get(v, set()) | tags
                            else:
                                env[v] = env.get(v, set()) | tags
                            if _round == 0:
                                note_children(pv, tags, n)
                    elif isinstance(n.value, ast.Name) and n.value.id in env:
                        env[v] = env.get(v, set()) | env[n.value.id]
                elif isinstance(n, ast.Assign) and len(n.targets) == 1 and isinstance(n.targets[0], ast.Subscript) \
                        and isinstance(n.targets[0].value, ast.Name) and n.targets[0].value.id in dispatch:
                    kt = self.tags_of(n.targets[0].slice)
                    if kt and P.src(n.value).startswith('self.'):
                        for t in kt:
                            dispatch[n.targets[0].value.id][t] = P.src(n.value)[5:]
                elif isinstance(n, (ast.For, ast.comprehension)):
                    it = n.iter
                    tgt = n.target
                    if isinstance(tgt, ast.Tuple) and isinstance(it, ast.Call) and P.call_name(it) == 'enumerate':
                        tgt = tgt.elts[1]
                    if not isinstance(tgt, ast.Name):
                        continue
                    if isinstance(it, ast.Name) and it.id in local_lists:
                        env[tgt.id] = env.get(tgt.id, set()) | local_lists[it.id]
                        continue
                    ce = children_expr(it)
                    if ce and (ce[0] in env):
                        env[tgt.id] = env.get(tgt.id, set()) | ce[1]
                        if _round == 0:
                            note_children(ce[0], ce[1], n if isinstance(n, ast.For) else it)
        # local helper functions handed an element: `def key(el): return el.attrib[..]` ... `key(position)` reads the attributes of `position`
        nested = dict((d.name, d) for d in ast.walk(f) if isinstance(d, ast.FunctionDef) and d is not f)
        bound = []
        for n in list(nodes):
            if isinstance(n, ast.Call) and isinstance(n.func, ast.Name) and n.func.id in nested and not n.keywords:
                d = nested[n.func.id]
                ps = [a.arg for a in d.args.args]
                for i, a in enumerate(n.args):
                    if i < len(ps) and isinstance(a, ast.Name) and a.id in env and ps[i] not in self.param_tags.get(mname, {}):
                        t = var_tags(a.id, n)
                        if t:
                            env[ps[i]] = env.get(ps[i], set()) | t
                            if d not in bound:
                                bound.append(d)
        for d in bound:
            nodes.extend(x for x in P.walk_no_nested(d) if x is not d)
        # pass 2: calls and reads
        for n in nodes:
            if isinstance(n, ast.Call):
                nm = P.call_name(n)
                # dispatch through dictionary: method = d.get(node.tag); method(node)
                if nm and nm.startswith('self.') and nm[5:] in self.methods:
                    callee = self.methods[nm[5:]]
                    params = [a.arg for a in callee.args.args]
                    if not any(P.src(d) == 'staticmethod' for d in callee.decorator_list):
                        params = params[1:]
                    for i, a in enumerate(n.args):
                        if i < len(params) and isinstance(a, ast.Name) and a.id in env:
                            t = var_tags(a.id, n)
                            if t:
                                out_calls.append((nm[5:], params[i], t))
                elif nm == 'map' and len(n.args) == 2 and P.src(n.args[0]).startswith('self.') and P.src(n.args[0])[5:] in self.methods:
                    callee = self.methods[P.src(n.args[0])[5:]]
                    params = [a.arg for a in callee.args.args][1:]
                    a = n.args[1]
                    if isinstance(a, ast.Name) and a.id in local_lists and params:
                        out_calls.append((P.src(n.args[0])[5:], params[0], set(local_lists[a.id])))
                elif isinstance(n.func, ast.Name) and n.func.id in [t.id for t, v, s in P.stores_in(f) if isinstance(t, ast.Name)]:
                    # method = parser_methods.get(node.tag); method(node)
                    for t, v, s in P.stores_in(f):
                        if isinstance(t, ast.Name) and t.id == n.func.id and isinstance(v, ast.Call) and isinstance(v.func, ast.Attribute) \
                                and v.func.attr == 'get' and isinstance(v.func.value, ast.Name) and v.func.value.id in dispatch and n.args \
                                and isinstance(n.args[0], ast.Name):
                            for tag, meth in dispatch[v.func.value.id].items():
                                if meth in self.methods:
                                    params = [a.arg for a in self.methods[meth].args.args][1:]
                                    if params:
                                        out_calls.append((meth, params[0], {tag}))
                                        if collect:
                                            for pt in var_tags(n.args[0].id, n) or set():
                                                pass
                            if collect:
                                # children of the iterated parent
                                pass
            if not collect:
                continue
            # reads
            key = var = kind = None
            if isinstance(n, ast.Call) and isinstance(n.func, ast.Attribute) and n.func.attr == 'get' and n.args:
                base = n.func.value
                if isinstance(base, ast.Attribute) and base.attr == 'attrib' and isinstance(base.value, ast.Name):
                    var, key, kind = base.value.id, n.args[0], 'get'
                elif isinstance(base, ast.Name) and base.id in env:
                    var, key, kind = base.id, n.args[0], 'get'
            elif isinstance(n, ast.Subscript) and isinstance(n.value, ast.Attribute) and n.value.attr == 'attrib' and isinstance(n.value.value, ast.Name) \
                    and isinstance(n.ctx, ast.Load):
                var, key, kind = n.value.value.id, n.slice, 'index'
            elif isinstance(n, ast.Compare) and len(n.ops) == 1 and isinstance(n.ops[0], (ast.In, ast.NotIn)) and isinstance(n.comparators[0], ast.Attribute) \
                    and n.comparators[0].attr == 'attrib' and isinstance(n.comparators[0].value, ast.Name):
                var, key, kind = n.comparators[0].value.id, n.left, 'in'
            elif isinstance(n, ast.Attribute) and n.attr == 'text' and isinstance(n.value, ast.Name) and n.value.id in env and isinstance(n.ctx, ast.Load):
                for t in var_tags(n.value.id, n):
                    self.text_reads.append((t, mname, n.lineno))
            if var is not None and var in env:
                k = self.fold(key)
                if not isinstance(k, str):
                    # key built in a loop over a literal list (e.g. for func_id in [...]: _glibns(func_id))
                    ks = self.loop_keys(key, f)
                    if ks is None:
                        ks = self.param_keys(key, f)
                    if ks is None:
                        raise AnalysisError('%s:%d: attribute key does not fold: %s' % (mname, n.lineno, P.src(key)))
                else:
                    ks = [k]
                for k in ks:
                    for t in var_tags(var, n) or {'?'}:
                        self.reads.append(Read(t, norm(k), kind, mname, n, var))
        return out_calls

    def loop_keys(self, key, f):
        """key expression depending on a loop variable that iterates a literal list"""
        names = P.names_in(key)
        for n in P.walk_no_nested(f):
            if isinstance(n, ast.For) and isinstance(n.target, ast.Name) and n.target.id in names:
                items = self.py.try_fold(n.iter, self.mod)
                if items is not None:
                    out = []
                    for it in items:
                        try:
                            out.append(self.py.fold(key, self.mod, {n.target.id: it}))
                        except P.Unfoldable:
                            return None
                    return out
            if isinstance(n, (ast.GeneratorExp, ast.ListComp, ast.SetComp, ast.DictComp)) and any(x is key for x in ast.walk(n)):
                # key built in a comprehension over a literal sequence
                for gen in n.generators:
                    if isinstance(gen.target, ast.Name) and gen.target.id in names:
                        items = self.py.try_fold(gen.iter, self.mod)
                        if items is not None:
                            out = []
                            for it in items:
                                try:
                                    out.append(self.py.fold(key, self.mod, {gen.target.id: it}))
                                except P.Unfoldable:
                                    return None
                            return out
        return None

    def param_keys(self, key, f):
        """key that is a parameter of the reading helper: the constants passed at the call sites inside the class"""
        if not isinstance(key, ast.Name) or key.id not in [a.arg for a in f.args.args]:
            return None
        out = []
        for mname, g in self.methods.items():
            for c in P.calls_in(g):
                if P.call_name(c) == 'self.' + f.name:
                    static = any(P.src(d) == 'staticmethod' for d in f.decorator_list)
                    a = P.bind_call(c, f, skip_self=not static).get(key.id)
                    if a is None:
                        d = P.param_defaults(f).get(key.id)
                        a = d
                    if a is None:
                        return None
                    k = self.fold(a)
                    if not isinstance(k, str):
                        return None
                    if k not in out:
                        out.append(k)
        return out or None

    # ------------------------------------------------------------------ views
    def keys_by_tag(self):
        out = {}
        for r in self.reads:
            out.setdefault(r.tag, {}).setdefault(r.key, []).append(r)
        return out

    def children_by_tag(self):
        out = {}
        for pt, ct, m, ln in self.child_reads:
            out.setdefault(pt, set()).add(ct)
        return out
