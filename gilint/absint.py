"""Finite-domain abstract evaluation of small expression trees and straight-line constructor bodies.

Used to tabulate decision tables (writer guard -> attribute, reader attribute -> model flag) and to
compose them.  Values are Python constants or Opaque tokens (an unknown but definite, truthy value).
Anything outside the supported subset raises Unknown, which callers turn into ANALYSIS-ERROR or a
skipped (unclaimed) instance — never into a verdict.
"""
import ast

from . import pyfront as P


class Unknown(Exception):
    pass


class PyRaise(Exception):
    """the evaluated code would raise (KeyError on a missing attribute, ValueError in int())"""
    def __init__(self, kind, what):
        Exception.__init__(self, '%s: %s' % (kind, what))
        self.kind = kind
        self.what = what


class Opaque(object):
    def __init__(self, tag):
        self.tag = tag

    def __repr__(self):
        return '<opaque %s>' % self.tag

    def __eq__(self, other):
        return isinstance(other, Opaque) and other.tag == self.tag

    def __ne__(self, other):
        return not self.__eq__(other)

    def __hash__(self):
        return hash(self.tag)


class Obj(object):
    """abstract object under construction: attribute dictionary"""
    def __init__(self, cls):
        self.cls = cls
        self.attrs = {}

    def __repr__(self):
        return '<Obj %s %r>' % (self.cls, self.attrs)


class Env(object):
    def __init__(self, py, mod, atoms=None, attrib=None, locals_=None, attrib_vars=()):
        self.py = py
        self.mod = mod
        self.atoms = dict(atoms or {})          # source text -> value
        self.attrib = attrib                    # dict key->str for the XML element being read (or None)
        self.attrib_vars = set(attrib_vars)     # names of variables denoting that element
        self.locals = dict(locals_ or {})

    def child(self, mod=None, locals_=None):
        return Env(self.py, mod or self.mod, self.atoms, self.attrib, locals_ if locals_ is not None else self.locals, self.attrib_vars)


def truthy(v):
    if isinstance(v, Opaque) or isinstance(v, Obj):
        return True
    return bool(v)


def ev(node, env):
    s = P.src(node)
    if s in env.atoms:
        return env.atoms[s]
    if isinstance(node, ast.Constant):
        return node.value
    if isinstance(node, ast.Name):
        if node.id in env.locals:
            return env.locals[node.id]
        if node.id in ('True', 'False', 'None'):
            return {'True': True, 'False': False, 'None': None}[node.id]
        try:
            return env.py.fold_name(env.mod, node.id)
        except P.Unfoldable:
            raise Unknown(s)
    if isinstance(node, ast.Attribute):
        if isinstance(node.value, ast.Name) and node.value.id in env.locals and isinstance(env.locals[node.value.id], Obj):
            o = env.locals[node.value.id]
            if node.attr in o.attrs:
                return o.attrs[node.attr]
            # class-level constant (e.g. Array.C)
            for modname in ('ast', env.mod.rel):
                try:
                    mm, val = env.py.class_attr(modname, o.cls, node.attr)
                    return env.py.fold(val, mm)
                except Exception:
                    pass
            raise Unknown('%s (attribute not set)' % s)
        try:
            return env.py.fold(node, env.mod)
        except P.Unfoldable:
            pass
        # class-level constants such as ast.Array.C
        d = P.dotted(node)
        if d and d.count('.') == 2:
            a, b, c = d.split('.')
            if a in env.mod.imports and env.mod.imports[a][1] is None:
                try:
                    tm = env.py.mod(env.mod.imports[a][0])
                    mm, val = env.py.class_attr(tm.rel, b, c)
                    return env.py.fold(val, mm)
                except Exception:
                    pass
        raise Unknown(s)
    if isinstance(node, ast.BoolOp):
        last = None
        for v in node.values:
            last = ev(v, env)
            if isinstance(node.op, ast.And) and not truthy(last):
                return last
            if isinstance(node.op, ast.Or) and truthy(last):
                return last
        return last
    if isinstance(node, ast.UnaryOp):
        if isinstance(node.op, ast.Not):
            return not truthy(ev(node.operand, env))
        if isinstance(node.op, ast.USub):
            return -ev(node.operand, env)
    if isinstance(node, ast.IfExp):
        return ev(node.body, env) if truthy(ev(node.test, env)) else ev(node.orelse, env)
    if isinstance(node, ast.Compare):
        left = ev(node.left, env)
        for op, c in zip(node.ops, node.comparators):
            right = ev(c, env)
            if isinstance(op, ast.Eq):
                r = left == right
            elif isinstance(op, ast.NotEq):
                r = left != right
            elif isinstance(op, ast.Is):
                r = (left is right) or (left is None and right is None) or (isinstance(left, bool) and left is right) or \
                    (isinstance(left, Opaque) and left == right)
                if left is None or right is None:
                    r = left is None and right is None
            elif isinstance(op, ast.IsNot):
                if left is None or right is None:
                    r = not (left is None and right is None)
                else:
                    r = left != right
            elif isinstance(op, (ast.In, ast.NotIn)):
                if isinstance(right, Opaque):
                    raise Unknown(s)
                r = left in right
                if isinstance(op, ast.NotIn):
                    r = not r
            elif isinstance(op, (ast.Gt, ast.GtE, ast.Lt, ast.LtE)):
                if isinstance(left, Opaque) or isinstance(right, Opaque) or left is None or right is None:
                    raise Unknown(s)
                r = {ast.Gt: left > right, ast.GtE: left >= right, ast.Lt: left < right, ast.LtE: left <= right}[type(op)]
            else:
                raise Unknown(s)
            if not r:
                return False
            left = right
        return True
    if isinstance(node, ast.BinOp) and isinstance(node.op, ast.Mod):
        fmt = ev(node.left, env)
        args = ev(node.right, env)
        if not isinstance(args, tuple):
            args = (args,)
        if any(isinstance(a, Opaque) for a in args):
            return Opaque('fmt(%s)' % ','.join(repr(a) for a in args))
        try:
            return fmt % args
        except Exception:
            raise Unknown(s)
    if isinstance(node, ast.Tuple):
        return tuple(ev(e, env) for e in node.elts)
    if isinstance(node, ast.List):
        return [ev(e, env) for e in node.elts]
    if isinstance(node, ast.Subscript):
        base = node.value
        if isinstance(base, ast.Attribute) and base.attr == 'attrib' and isinstance(base.value, ast.Name) and base.value.id in env.attrib_vars:
            k = ev(node.slice, env)
            if env.attrib is None:
                raise Unknown(s)
            if k not in env.attrib:
                raise PyRaise('KeyError', k)
            return env.attrib[k]
        raise Unknown(s)
    if isinstance(node, ast.Call):
        fn = node.func
        nm = P.call_name(node)
        if isinstance(fn, ast.Attribute) and fn.attr == 'get' and node.args:
            base = fn.value
            isattr = (isinstance(base, ast.Attribute) and base.attr == 'attrib' and isinstance(base.value, ast.Name) and base.value.id in env.attrib_vars) \
                or (isinstance(base, ast.Name) and base.id in env.attrib_vars)
            if isattr:
                if env.attrib is None:
                    raise Unknown(s)
                k = ev(node.args[0], env)
                d = ev(node.args[1], env) if len(node.args) > 1 else None
                return env.attrib.get(k, d)
        if isinstance(fn, ast.Attribute) and fn.attr in ('find', 'findall') and isinstance(fn.value, ast.Name) and fn.value.id in env.attrib_vars \
                and env.locals.get('__childless__'):
            # attribute-level analysis: the element has no child elements
            return None if fn.attr == 'find' else []
        if isinstance(fn, ast.Attribute) and fn.attr in ('replace', 'lower', 'upper', 'strip', 'startswith', 'endswith', 'split', 'capitalize'):
            try:
                basev = ev(fn.value, env)
            except Unknown:
                basev = None
            if isinstance(basev, str):
                args = [ev(a, env) for a in node.args]
                if all(isinstance(a, (str, int)) for a in args):
                    return getattr(basev, fn.attr)(*args)
        if nm in ('int', 'bool', 'str', 'len') and len(node.args) == 1:
            a = ev(node.args[0], env)
            if isinstance(a, Opaque):
                return Opaque('%s(%s)' % (nm, a.tag)) if nm != 'bool' else True
            try:
                return {'int': int, 'bool': bool, 'str': str, 'len': len}[nm](a)
            except ValueError:
                raise PyRaise('ValueError', '%s(%r)' % (nm, a))
            except TypeError:
                raise PyRaise('TypeError', '%s(%r)' % (nm, a))
        if nm and (nm in env.mod.functions) and not node.keywords:
            try:
                return env.py.fold(node, env.mod, dict((k, v) for k, v in env.locals.items() if isinstance(v, (str, int))))
            except P.Unfoldable:
                pass
        # opaque function of its arguments: None-in -> still opaque (callers guard with `is not None`)
        return Opaque('call:%s' % s)
    raise Unknown(s)


# ---------------------------------------------------------------------- statements

class Interp(object):
    """executes straight-line bodies (Assign / If / Try / Expr base-ctor calls) over an Env"""
    def __init__(self, py, assume=None):
        self.py = py
        self.depth = 0
        self.assume = dict(assume or {})      # source text -> value, valid inside constructor bodies

    def construct(self, modname, cname, call, env):
        """abstractly run <modname>.<cname>.__init__ for the call expression (args evaluated in env)"""
        init = self.py.func(modname, '%s.__init__' % cname, required=False)
        obj = Obj(cname)
        if init is None:
            return obj
        bound = P.bind_call(call, init)
        self.run_init(modname, cname, init, bound, env, obj)
        return obj

    def run_init(self, modname, cname, init, bound_nodes, env, obj, bound_values=None):
        m = init._module
        defaults = P.param_defaults(init)
        loc = {'self': obj}
        if init.args.kwarg is not None:
            extra = {}
            for k, node_ in bound_nodes.items():
                if k not in defaults:
                    try:
                        extra[k] = ev(node_, env)
                    except Unknown:
                        extra[k] = Opaque('arg:%s' % P.src(node_))
            for k, v_ in (bound_values or {}).items():
                if k not in defaults:
                    extra[k] = v_
            loc[init.args.kwarg.arg] = extra
        for p, d in defaults.items():
            if p in bound_nodes and not (bound_values is not None and p in bound_values):
                try:
                    loc[p] = ev(bound_nodes[p], env)
                except Unknown:
                    loc[p] = Opaque('arg:%s' % P.src(bound_nodes[p]))
            elif bound_values is not None and p in bound_values:
                loc[p] = bound_values[p]
            elif d is not None:
                loc[p] = ev(d, Env(self.py, m))
            else:
                loc[p] = Opaque('unbound:%s' % p)
        e2 = Env(self.py, m, self.assume, None, loc, ())
        self.block(init.body, e2, modname)

    def block(self, stmts, env, modname):
        for st in stmts:
            r = self.stmt(st, env, modname)
            if r == 'return':
                return r
        return None

    def stmt(self, st, env, modname):
        if isinstance(st, ast.Expr) and isinstance(st.value, ast.Constant):
            return
        if isinstance(st, ast.Assign) and len(st.targets) == 1:
            t = st.targets[0]
            try:
                v = ev(st.value, env)
            except Unknown:
                v = Opaque('expr:%s' % P.src(st.value))
            if isinstance(t, ast.Name):
                env.locals[t.id] = v
            elif isinstance(t, ast.Attribute) and isinstance(t.value, ast.Name) and isinstance(env.locals.get(t.value.id), Obj):
                env.locals[t.value.id].attrs[t.attr] = v
            return
        if isinstance(st, ast.If):
            try:
                c = truthy(ev(st.test, env))
            except Unknown:
                # both branches: mark every attribute stored in either as opaque
                for s_ in ast.walk(st):
                    if isinstance(s_, ast.Assign):
                        for t in s_.targets:
                            if isinstance(t, ast.Attribute) and isinstance(t.value, ast.Name) and isinstance(env.locals.get(t.value.id), Obj):
                                env.locals[t.value.id].attrs[t.attr] = Opaque('under-unknown-guard:%s' % P.src(st.test))
                return
            return self.block(st.body if c else st.orelse, env, modname)
        if isinstance(st, ast.Try):
            try:
                return self.block(st.body, env, modname)
            except PyRaise as e:
                for h in st.handlers:
                    names = [P.src(h.type)] if h.type is not None and not isinstance(h.type, ast.Tuple) else \
                        ([P.src(x) for x in h.type.elts] if h.type is not None else [e.kind])
                    if e.kind in names or 'Exception' in names:
                        return self.block(h.body, env, modname)
                raise
        if isinstance(st, ast.Expr) and isinstance(st.value, ast.Call):
            c = st.value
            # Base.__init__(self, ...)
            if isinstance(c.func, ast.Attribute) and c.func.attr == '__init__' and isinstance(c.func.value, ast.Name) and c.args \
                    and P.src(c.args[0]) == 'self':
                base = c.func.value.id
                mod = env.mod
                tgt = None
                if base in mod.classes:
                    tgt = (mod.rel, base)
                elif base in mod.imports and not mod.imports[base][0].startswith('ext:') and mod.imports[base][1]:
                    tgt = (self.py.mod(mod.imports[base][0]).rel, mod.imports[base][1])
                if tgt:
                    init = self.py.func(tgt[0], '%s.__init__' % tgt[1], required=False)
                    if init is not None:
                        call2 = ast.Call(func=c.func, args=c.args[1:], keywords=[k for k in c.keywords if k.arg is not None])
                        bound = P.bind_call(call2, init)
                        bv = None
                        for k in c.keywords:
                            if k.arg is None and isinstance(k.value, ast.Name) and isinstance(env.locals.get(k.value.id), dict):
                                bv = dict(env.locals[k.value.id])
                        self.run_init(tgt[0], tgt[1], init, bound, env, env.locals['self'], bound_values=bv)
                return
            return
        if isinstance(st, ast.Return):
            return 'return'
        if isinstance(st, (ast.Assert, ast.Pass)):
            return
        if isinstance(st, (ast.For, ast.While, ast.With)):
            # loops do not occur in the constructors that matter; attributes stored inside become opaque
            for s_ in ast.walk(st):
                if isinstance(s_, ast.Assign):
                    for t in s_.targets:
                        if isinstance(t, ast.Attribute) and isinstance(t.value, ast.Name) and isinstance(env.locals.get(t.value.id), Obj):
                            env.locals[t.value.id].attrs[t.attr] = Opaque('in-loop')
            return
        return
