"""Seeded-variant self-test (thorough tier, informational): every confirmed seeded regression of this
property under /verif/seeded/<ID>/ is applied to a scratch COPY of the analysed sources (never to /repo)
and the property's rules must report a violation that is not in known_findings.json."""
import glob
import os
import shutil
import subprocess
import tempfile

from . import core

DIRS = ('giscanner', 'girepository', 'tools', 'docs')


def run(prop, module, repo='/repo'):
    out = {'applied': 0, 'fired': 0, 'silent': [], 'stale': [], 'variants': []}
    for vdir in sorted(glob.glob(os.path.join(core.VERIF, 'seeded', prop, 'v*'))):
        patch = os.path.join(vdir, 'patch.diff')
        if not os.path.exists(patch):
            continue
        tmp = tempfile.mkdtemp(prefix='gilint-selftest-')
        try:
            for d in DIRS:
                if os.path.isdir(os.path.join(repo, d)):
                    shutil.copytree(os.path.join(repo, d), os.path.join(tmp, d), ignore=shutil.ignore_patterns('*.gir', '__pycache__', '*.typelib'))
            p = subprocess.run(['git', 'apply', '--unsafe-paths', '--directory', tmp, patch], cwd=tmp, stdout=subprocess.PIPE, stderr=subprocess.PIPE)
            if p.returncode != 0:
                p = subprocess.run(['patch', '-p1', '-s', '-f', '-i', patch], cwd=tmp, stdout=subprocess.PIPE, stderr=subprocess.PIPE)
            if p.returncode != 0:
                out['stale'].append(os.path.basename(vdir))
                continue
            out['applied'] += 1
            ctx, status, err = core.analyse(prop, module, tmp, 'quick')
            known = [k for k in core.load_known() if k.get('property') == prop and k.get('status', 'known') == 'known']
            new = [f for f in ctx.findings if not any(k.get('rule') == f.rule and k.get('construct') == f.construct for k in known)]
            if new:
                out['fired'] += 1
                out['variants'].append({'variant': os.path.basename(vdir), 'rules': sorted(set(f.rule for f in new))})
            else:
                out['silent'].append(os.path.basename(vdir))
        finally:
            shutil.rmtree(tmp, ignore_errors=True)
    return out


def main(args):
    import importlib
    rc = 0
    for mod in sorted(glob.glob(os.path.join(core.VERIF, 'gilint', 'props', 'c*.py'))):
        prop = os.path.basename(mod)[:-3].upper()
        m = importlib.import_module('gilint.props.%s' % prop.lower())
        r = run(prop, m)
        print('%s applied=%d fired=%d silent=%s stale=%s' % (prop, r['applied'], r['fired'], r['silent'], r['stale']))
        if r['silent']:
            rc = 1
    return rc
