"""python -m gilint <ID> [--tier quick|thorough] [--root DIR]"""
import argparse
import importlib
import os
import sys

from . import core


def main(argv=None):
    ap = argparse.ArgumentParser(prog='gilint')
    ap.add_argument('prop')
    ap.add_argument('--tier', default=os.environ.get('VERIF_TIER') or 'quick', choices=['quick', 'thorough'])
    ap.add_argument('--root', default='/repo')
    args = ap.parse_args(argv)
    try:
        seed = int(os.environ.get('VERIF_SEED', '0'))
    except ValueError:
        seed = 0
    if args.prop == 'selftest':
        from . import selftest
        return selftest.main(args)
    try:
        mod = importlib.import_module('gilint.props.%s' % args.prop.lower())
    except ImportError as e:
        print('ANALYSIS-ERROR no checker for %s: %s' % (args.prop, e))
        return 2
    return core.run_property(args.prop, mod, os.path.abspath(args.root), args.tier, seed)


if __name__ == '__main__':
    sys.exit(main())
