#ifndef VERIF_GLIB_STUB_H
#define VERIF_GLIB_STUB_H
#include <stdint.h>
#include <stddef.h>
#include <stdarg.h>
#include <string.h>
#include <stdlib.h>
#include <stdio.h>
#include <limits.h>
#include <errno.h>
#define GLIB_CHECK_VERSION(a,b,c) 1
typedef char gchar; typedef unsigned char guchar; typedef int gint; typedef unsigned int guint;
typedef int8_t gint8; typedef uint8_t guint8; typedef int16_t gint16; typedef uint16_t guint16;
typedef int32_t gint32; typedef uint32_t guint32; typedef int64_t gint64; typedef uint64_t guint64;
typedef int gboolean; typedef void* gpointer; typedef const void* gconstpointer; typedef size_t gsize; typedef long gssize;
typedef float gfloat; typedef double gdouble; typedef long glong; typedef unsigned long gulong; typedef short gshort; typedef unsigned short gushort;
typedef intptr_t gintptr; typedef uintptr_t guintptr; typedef guint32 gunichar; typedef gint64 goffset;
typedef guint32 GQuark; typedef gsize GType;
#define TRUE 1
#define FALSE 0
#define G_BEGIN_DECLS
#define G_END_DECLS
#define G_GNUC_INTERNAL
#define G_GNUC_CONST
#define G_GNUC_PURE
#define GLIB_SIZEOF_SIZE_T 8
#define GLIB_SIZEOF_LONG 8
#define GLIB_SIZEOF_VOID_P 8
#define G_CSET_a_2_z "abcdefghijklmnopqrstuvwxyz"
#define G_CSET_A_2_Z "ABCDEFGHIJKLMNOPQRSTUVWXYZ"
#define G_CSET_DIGITS "0123456789"
#define G_GNUC_UNUSED
#define G_GNUC_NORETURN
#define G_GNUC_PRINTF(a,b)
#define G_DEPRECATED
#define G_DEPRECATED_FOR(x)
#define G_UNAVAILABLE(a,b)
#define G_ALWAYS_INLINE
#define G_OS_UNIX 1
#define G_MAXINT INT_MAX
#define G_MAXSHORT SHRT_MAX
#define G_MINSHORT SHRT_MIN
#define G_MAXUSHORT USHRT_MAX
#define G_MAXUINT16 0xffff
#define G_GINT16_FORMAT "hi"
#define G_GUINT16_FORMAT "hu"
#define G_GINT32_FORMAT "i"
#define G_GUINT32_FORMAT "u"
#define G_GINT64_FORMAT "li"
#define G_GUINT64_FORMAT "lu"
#define G_GSIZE_FORMAT "lu"
#define G_SEARCHPATH_SEPARATOR_S ":"
#define G_DIR_SEPARATOR_S "/"
#define G_N_ELEMENTS(a) (sizeof(a)/sizeof((a)[0]))
#define G_STRUCT_OFFSET(t,m) ((glong)offsetof(t,m))
#define G_STRUCT_MEMBER_P(p,o) ((gpointer)((guint8*)(p)+(glong)(o)))
#define G_STRUCT_MEMBER(t,p,o) (*(t*)G_STRUCT_MEMBER_P((p),(o)))
#define G_STATIC_ASSERT(e) _Static_assert(e, "static assert")
#define MAX(a,b) (((a)>(b))?(a):(b))
#define MIN(a,b) (((a)<(b))?(a):(b))
#define ABS(a) (((a)<0)?-(a):(a))
#define GPOINTER_TO_UINT(p) ((guint)(gulong)(p))
#define GUINT_TO_POINTER(u) ((gpointer)(gulong)(u))
#define GPOINTER_TO_INT(p) ((gint)(glong)(p))
#define GINT_TO_POINTER(u) ((gpointer)(glong)(u))
#define GPOINTER_TO_SIZE(p) ((gsize)(p))
#define GSIZE_TO_POINTER(s) ((gpointer)(gsize)(s))
typedef struct _GError { GQuark domain; gint code; gchar *message; } GError;
typedef struct _GList GList; struct _GList { gpointer data; GList *next; GList *prev; };
typedef struct _GSList GSList; struct _GSList { gpointer data; GSList *next; };
typedef struct _GString { gchar *str; gsize len; gsize allocated_len; } GString;
typedef struct _GHashTable GHashTable; typedef struct _GHashTableIter { gpointer d1,d2,d3; int d4; gboolean d5; gpointer d6; } GHashTableIter;
typedef struct _GMappedFile GMappedFile; typedef struct _GDir GDir; typedef struct _GPtrArray { gpointer *pdata; guint len; } GPtrArray;
typedef struct _GArray { gchar *data; guint len; } GArray; typedef struct _GByteArray { guint8 *data; guint len; } GByteArray;
typedef gchar** GStrv; typedef struct _GOptionGroup GOptionGroup; typedef struct _GOptionContext GOptionContext;
typedef struct _GMarkupParseContext GMarkupParseContext; typedef int GLogLevelFlags;
typedef void (*GDestroyNotify)(gpointer); typedef gint (*GCompareFunc)(gconstpointer,gconstpointer); typedef void (*GFunc)(gpointer,gpointer);
typedef guint (*GHashFunc)(gconstpointer); typedef gboolean (*GEqualFunc)(gconstpointer,gconstpointer); typedef void (*GHFunc)(gpointer,gpointer,gpointer);
typedef gboolean (*GHRFunc)(gpointer,gpointer,gpointer);
typedef enum { G_OPTION_ARG_NONE, G_OPTION_ARG_STRING, G_OPTION_ARG_INT, G_OPTION_ARG_CALLBACK, G_OPTION_ARG_FILENAME, G_OPTION_ARG_STRING_ARRAY, G_OPTION_ARG_FILENAME_ARRAY } GOptionArg;
#define G_OPTION_FLAG_HIDDEN 1
#define G_OPTION_REMAINING ""
typedef struct { const gchar *long_name; gchar short_name; gint flags; GOptionArg arg; gpointer arg_data; const gchar *description; const gchar *arg_description; } GOptionEntry;
typedef struct _GMarkupParser { void (*start_element)(GMarkupParseContext*,const gchar*,const gchar**,const gchar**,gpointer,GError**); void (*end_element)(GMarkupParseContext*,const gchar*,gpointer,GError**); void (*text)(GMarkupParseContext*,const gchar*,gsize,gpointer,GError**); void (*passthrough)(GMarkupParseContext*,const gchar*,gsize,gpointer,GError**); void (*error)(GMarkupParseContext*,GError*,gpointer); } GMarkupParser;
enum { G_MARKUP_ERROR_BAD_UTF8, G_MARKUP_ERROR_EMPTY, G_MARKUP_ERROR_PARSE, G_MARKUP_ERROR_UNKNOWN_ELEMENT, G_MARKUP_ERROR_UNKNOWN_ATTRIBUTE, G_MARKUP_ERROR_INVALID_CONTENT, G_MARKUP_ERROR_MISSING_ATTRIBUTE };
enum { G_FILE_TEST_IS_REGULAR=1, G_FILE_TEST_IS_SYMLINK=2, G_FILE_TEST_IS_DIR=4, G_FILE_TEST_IS_EXECUTABLE=8, G_FILE_TEST_EXISTS=16 };
enum { G_FILE_ERROR_FAILED = 24 };
enum { G_LOG_LEVEL_CRITICAL=8, G_LOG_LEVEL_WARNING=16, G_LOG_LEVEL_MESSAGE=32, G_LOG_LEVEL_DEBUG=128, G_LOG_LEVEL_MASK=~3 };
GQuark g_markup_error_quark(void); GQuark g_file_error_quark(void);
#define G_MARKUP_ERROR g_markup_error_quark()
#define G_FILE_ERROR g_file_error_quark()
/* memory / macros taking types */
gpointer g_malloc(gsize); gpointer g_malloc0(gsize); gpointer g_realloc(gpointer,gsize); void g_free(gpointer);
#define g_new(t,n) ((t*)g_malloc(sizeof(t)*(n)))
#define g_new0(t,n) ((t*)g_malloc0(sizeof(t)*(n)))
#define g_renew(t,m,n) ((t*)g_realloc((m),sizeof(t)*(n)))
#define g_slice_new(t) ((t*)g_malloc(sizeof(t)))
#define g_slice_new0(t) ((t*)g_malloc0(sizeof(t)))
#define g_slice_free(t,p) g_free(p)
#define g_alloca(n) __builtin_alloca(n)
#define g_newa(t,n) ((t*)g_alloca(sizeof(t)*(gsize)(n)))
#define g_steal_pointer(pp) (*(pp))
#define g_clear_pointer(pp,fn) do { if (*(pp)) { fn(*(pp)); *(pp)=NULL; } } while(0)
void g_assertion_fail(const char*) __attribute__((noreturn));
#define g_assert(e) do { if (!(e)) g_assertion_fail(#e); } while(0)
#define g_assert_not_reached() g_assertion_fail("not reached")
#define g_assert_cmpint(a,op,b) g_assert((a) op (b))
#define g_assert_cmpuint(a,op,b) g_assert((a) op (b))
#define g_assert_cmpstr(a,op,b) g_assert(g_strcmp0((a),(b)) op 0)
#define g_assert_true(e) g_assert(e)
#define g_assert_nonnull(e) g_assert((e)!=NULL)
#define g_assert_null(e) g_assert((e)==NULL)
#define g_return_if_fail(e) do { if (!(e)) return; } while(0)
#define g_return_val_if_fail(e,v) do { if (!(e)) return (v); } while(0)
#define g_return_if_reached() return
#define g_return_val_if_reached(v) return (v)
void g_log(const gchar*,GLogLevelFlags,const gchar*,...);
void g_error(const gchar*,...) __attribute__((noreturn)); void g_warning(const gchar*,...); void g_critical(const gchar*,...); void g_message(const gchar*,...); void g_debug(const gchar*,...);
void g_print(const gchar*,...); void g_printerr(const gchar*,...); gint g_fprintf(FILE*,const gchar*,...);
void g_set_error(GError**,GQuark,gint,const gchar*,...); void g_set_error_literal(GError**,GQuark,gint,const gchar*); void g_clear_error(GError**); void g_error_free(GError*); void g_propagate_error(GError**,GError*); GError* g_error_new(GQuark,gint,const gchar*,...);
void g_propagate_prefixed_error(GError**,GError*,const gchar*,...);
gchar* g_strdup(const gchar*); gchar* g_strndup(const gchar*,gsize); gchar* g_strdup_printf(const gchar*,...); gchar* g_strdup_vprintf(const gchar*,va_list); gchar** g_strsplit(const gchar*,const gchar*,gint); void g_strfreev(gchar**); guint g_strv_length(gchar**);
gchar* g_strconcat(const gchar*,...); gchar* g_strjoin(const gchar*,...); gchar* g_strjoinv(const gchar*,gchar**); gchar *g_strchomp(gchar*); gchar *g_strchug(gchar*); gchar* g_strstr_len(const gchar*,gssize,const gchar*);
gboolean g_str_equal(gconstpointer,gconstpointer); guint g_str_hash(gconstpointer); gboolean g_direct_equal(gconstpointer,gconstpointer); guint g_direct_hash(gconstpointer);
gboolean g_str_has_prefix(const gchar*,const gchar*); gboolean g_str_has_suffix(const gchar*,const gchar*); int g_strcmp0(const char*,const char*); gint g_ascii_strcasecmp(const gchar*,const gchar*); gint64 g_ascii_strtoll(const gchar*,gchar**,guint); guint64 g_ascii_strtoull(const gchar*,gchar**,guint); gdouble g_ascii_strtod(const gchar*,gchar**);
gboolean g_ascii_isspace(gchar); gboolean g_ascii_isdigit(gchar); gboolean g_ascii_isalnum(gchar); gchar* g_ascii_strdown(const gchar*,gssize); gchar* g_ascii_strup(const gchar*,gssize); gchar g_ascii_tolower(gchar); gchar g_ascii_toupper(gchar);
const gchar* g_strerror(gint); gchar* g_markup_escape_text(const gchar*,gssize); gchar* g_markup_vprintf_escaped(const gchar*,va_list); gchar* g_markup_printf_escaped(const gchar*,...);
GList* g_list_append(GList*,gpointer); GList* g_list_prepend(GList*,gpointer); GList* g_list_insert_sorted(GList*,gpointer,GCompareFunc); void g_list_free(GList*); void g_list_free_full(GList*,GDestroyNotify); guint g_list_length(GList*); GList* g_list_delete_link(GList*,GList*); GList* g_list_copy(GList*); GList* g_list_reverse(GList*); GList* g_list_sort(GList*,GCompareFunc); GList* g_list_find_custom(GList*,gconstpointer,GCompareFunc); GList* g_list_concat(GList*,GList*); GList* g_list_last(GList*); GList* g_list_remove(GList*,gconstpointer); GList* g_list_find(GList*,gconstpointer); gpointer g_list_nth_data(GList*,guint); void g_list_foreach(GList*,GFunc,gpointer); GList *g_list_remove_link(GList*,GList*);
GSList* g_slist_append(GSList*,gpointer); GSList* g_slist_prepend(GSList*,gpointer); void g_slist_free(GSList*); void g_slist_free_full(GSList*,GDestroyNotify); GSList* g_slist_delete_link(GSList*,GSList*); GSList* g_slist_sort(GSList*,GCompareFunc); void g_slist_foreach(GSList*,GFunc,gpointer); GSList* g_slist_reverse(GSList*); guint g_slist_length(GSList*); GSList* g_slist_copy(GSList*); GSList *g_slist_remove(GSList*,gconstpointer); GSList* g_slist_find_custom(GSList*,gconstpointer,GCompareFunc);
GHashTable* g_hash_table_new(GHashFunc,GEqualFunc); GHashTable* g_hash_table_new_full(GHashFunc,GEqualFunc,GDestroyNotify,GDestroyNotify); void g_hash_table_destroy(GHashTable*); void g_hash_table_unref(GHashTable*); GHashTable* g_hash_table_ref(GHashTable*); gboolean g_hash_table_insert(GHashTable*,gpointer,gpointer); gboolean g_hash_table_replace(GHashTable*,gpointer,gpointer); gboolean g_hash_table_add(GHashTable*,gpointer); gpointer g_hash_table_lookup(GHashTable*,gconstpointer); gboolean g_hash_table_lookup_extended(GHashTable*,gconstpointer,gpointer*,gpointer*); guint g_hash_table_size(GHashTable*); void g_hash_table_foreach(GHashTable*,GHFunc,gpointer); gboolean g_hash_table_remove(GHashTable*,gconstpointer); void g_hash_table_iter_init(GHashTableIter*,GHashTable*); gboolean g_hash_table_iter_next(GHashTableIter*,gpointer*,gpointer*); gboolean g_hash_table_contains(GHashTable*,gconstpointer); GList* g_hash_table_get_keys(GHashTable*); gpointer g_hash_table_find(GHashTable*,GHRFunc,gpointer); void g_hash_table_remove_all(GHashTable*); guint g_hash_table_foreach_remove(GHashTable*,GHRFunc,gpointer);
GString* g_string_new(const gchar*); gchar* g_string_free(GString*,gboolean); GString* g_string_append(GString*,const gchar*); GString* g_string_append_c(GString*,gchar); void g_string_append_printf(GString*,const gchar*,...); GString* g_string_overwrite_len(GString*,gsize,const gchar*,gssize); GString* g_string_sized_new(gsize); GString* g_string_append_len(GString*,const gchar*,gssize); GString *g_string_truncate(GString*,gsize); GString* g_string_prepend(GString*,const gchar*); void g_string_printf(GString*,const gchar*,...);
GMappedFile* g_mapped_file_new(const gchar*,gboolean,GError**); void g_mapped_file_unref(GMappedFile*); gchar* g_mapped_file_get_contents(GMappedFile*); gsize g_mapped_file_get_length(GMappedFile*);
GDir* g_dir_open(const gchar*,guint,GError**); const gchar* g_dir_read_name(GDir*); void g_dir_close(GDir*);
gchar* g_build_filename(const gchar*,...); gboolean g_file_test(const gchar*,int); gboolean g_file_get_contents(const gchar*,gchar**,gsize*,GError**); gboolean g_file_set_contents(const gchar*,const gchar*,gssize,GError**); gchar* g_path_get_basename(const gchar*); gchar* g_path_get_dirname(const gchar*); gboolean g_path_is_absolute(const gchar*); gint g_file_error_from_errno(gint);
const gchar* g_getenv(const gchar*); const gchar* const * g_get_system_data_dirs(void); const gchar* g_get_user_data_dir(void); gchar* g_get_current_dir(void); gboolean g_setenv(const gchar*,const gchar*,gboolean);
GQuark g_quark_from_static_string(const gchar*); GQuark g_quark_from_string(const gchar*); const gchar* g_quark_to_string(GQuark); const gchar *g_intern_string(const gchar*);
gboolean g_once_init_enter(volatile void*); void g_once_init_leave(volatile void*, gsize);
GPtrArray* g_ptr_array_new(void); void g_ptr_array_add(GPtrArray*,gpointer); gpointer* g_ptr_array_free(GPtrArray*,gboolean); GPtrArray* g_ptr_array_new_with_free_func(GDestroyNotify); void g_ptr_array_unref(GPtrArray*); void g_ptr_array_sort(GPtrArray*,GCompareFunc); GPtrArray* g_ptr_array_sized_new(guint);
#define g_ptr_array_index(a,i) ((a)->pdata)[i]
GMarkupParseContext* g_markup_parse_context_new(const GMarkupParser*,int,gpointer,GDestroyNotify); void g_markup_parse_context_free(GMarkupParseContext*); gboolean g_markup_parse_context_parse(GMarkupParseContext*,const gchar*,gssize,GError**); gboolean g_markup_parse_context_end_parse(GMarkupParseContext*,GError**); void g_markup_parse_context_get_position(GMarkupParseContext*,gint*,gint*); void g_markup_parse_context_push(GMarkupParseContext*,const GMarkupParser*,gpointer); gpointer g_markup_parse_context_pop(GMarkupParseContext*); const gchar* g_markup_parse_context_get_element(GMarkupParseContext*);
GOptionContext* g_option_context_new(const gchar*); void g_option_context_add_main_entries(GOptionContext*,const GOptionEntry*,const gchar*); gboolean g_option_context_parse(GOptionContext*,gint*,gchar***,GError**); void g_option_context_free(GOptionContext*); void g_option_context_add_group(GOptionContext*,GOptionGroup*); GOptionGroup* g_option_group_new(const gchar*,const gchar*,const gchar*,gpointer,GDestroyNotify); void g_option_group_add_entries(GOptionGroup*,const GOptionEntry*);
void g_log_set_always_fatal(GLogLevelFlags); guint g_log_set_handler(const gchar*,GLogLevelFlags,gpointer,gpointer); void g_log_set_default_handler(gpointer,gpointer); void g_log_default_handler(const gchar*,GLogLevelFlags,const gchar*,gpointer);
void g_qsort_with_data(gconstpointer,gint,gsize,gpointer,gpointer); gint g_snprintf(gchar*,gulong,const gchar*,...); gint g_vsnprintf(gchar*,gulong,const gchar*,va_list); gint g_printf(const gchar*,...); gint g_sprintf(gchar*,const gchar*,...); gint g_vfprintf(FILE*,const gchar*,va_list);
gint g_unlink(const gchar*); gint g_rename(const gchar*,const gchar*); FILE* g_fopen(const gchar*,const gchar*); int g_mkstemp(gchar*); int g_open(const gchar*,int,int);
void g_set_prgname(const gchar*); const gchar* g_get_prgname(void); void g_test_init(int*,char***,...); int g_test_run(void); void g_test_add_func(const char*, void(*)(void));
void g_atomic_int_inc(volatile gint*); gboolean g_atomic_int_dec_and_test(volatile gint*); gint g_atomic_int_get(const volatile gint*);
gchar* g_strescape(const gchar*,const gchar*); GByteArray* g_byte_array_new(void); GByteArray* g_byte_array_append(GByteArray*,const guint8*,guint); guint8* g_byte_array_free(GByteArray*,gboolean);
void g_prefix_error(GError**,const gchar*,...); GString* g_string_insert_c(GString*,gssize,gchar); gchar** g_strdupv(gchar**); void g_slist_free_1(GSList*); GPtrArray* g_ptr_array_new_full(guint,GDestroyNotify); gpointer g_memdup2(gconstpointer,gsize); gpointer g_memdup(gconstpointer,guint); void g_hash_table_iter_steal(GHashTableIter*); gboolean g_ascii_isupper(gchar);
#endif
