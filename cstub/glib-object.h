#ifndef VERIF_GOBJECT_STUB_H
#define VERIF_GOBJECT_STUB_H
#include <glib.h>
typedef struct _GTypeClass { GType g_type; } GTypeClass; typedef struct _GTypeInstance { GTypeClass *g_class; } GTypeInstance; typedef struct _GTypeInterface { GType g_type; GType g_instance_type; } GTypeInterface;
typedef struct _GObject { GTypeInstance g_type_instance; guint ref_count; gpointer qdata; } GObject;
typedef struct _GObjectClass { GTypeClass g_type_class; void (*finalize)(GObject*); gpointer pad[16]; } GObjectClass;
typedef struct _GValue { GType g_type; union { gint v_int; guint v_uint; glong v_long; gulong v_ulong; gint64 v_int64; guint64 v_uint64; gfloat v_float; gdouble v_double; gpointer v_pointer; } data[2]; } GValue;
typedef struct _GClosure { guint ref_count; gpointer marshal; gpointer data; gpointer notifiers; } GClosure; typedef struct _GCClosure { gpointer closure_pad[4]; gpointer callback; } GCClosure;
typedef enum { G_PARAM_READABLE=1, G_PARAM_WRITABLE=2, G_PARAM_READWRITE=3, G_PARAM_CONSTRUCT=4, G_PARAM_CONSTRUCT_ONLY=8 } GParamFlags;
typedef enum { G_SIGNAL_RUN_FIRST=1, G_SIGNAL_RUN_LAST=2, G_SIGNAL_RUN_CLEANUP=4, G_SIGNAL_NO_RECURSE=8, G_SIGNAL_DETAILED=16, G_SIGNAL_ACTION=32, G_SIGNAL_NO_HOOKS=64, G_SIGNAL_MUST_COLLECT=128 } GSignalFlags;
typedef struct _GParamSpec { GTypeInstance g_type_instance; const gchar *name; GParamFlags flags; GType value_type; GType owner_type; } GParamSpec;
typedef struct _GEnumValue { gint value; const gchar *value_name; const gchar *value_nick; } GEnumValue; typedef struct _GFlagsValue { guint value; const gchar *value_name; const gchar *value_nick; } GFlagsValue;
typedef struct _GEnumClass { GTypeClass g_type_class; gint minimum, maximum; guint n_values; GEnumValue *values; } GEnumClass; typedef struct _GFlagsClass { GTypeClass g_type_class; guint mask; guint n_values; GFlagsValue *values; } GFlagsClass;
typedef struct _GSignalQuery { guint signal_id; const gchar *signal_name; GType itype; GSignalFlags signal_flags; GType return_type; guint n_params; const GType *param_types; } GSignalQuery;
typedef gpointer (*GBoxedCopyFunc)(gpointer); typedef void (*GBoxedFreeFunc)(gpointer); typedef void (*GCallback)(void);
#define G_TYPE_FUNDAMENTAL_SHIFT 2
#define G_TYPE_MAKE_FUNDAMENTAL(x) ((GType)((x) << G_TYPE_FUNDAMENTAL_SHIFT))
#define G_TYPE_INVALID G_TYPE_MAKE_FUNDAMENTAL(0)
#define G_TYPE_NONE G_TYPE_MAKE_FUNDAMENTAL(1)
#define G_TYPE_INTERFACE G_TYPE_MAKE_FUNDAMENTAL(2)
#define G_TYPE_CHAR G_TYPE_MAKE_FUNDAMENTAL(3)
#define G_TYPE_UCHAR G_TYPE_MAKE_FUNDAMENTAL(4)
#define G_TYPE_BOOLEAN G_TYPE_MAKE_FUNDAMENTAL(5)
#define G_TYPE_INT G_TYPE_MAKE_FUNDAMENTAL(6)
#define G_TYPE_UINT G_TYPE_MAKE_FUNDAMENTAL(7)
#define G_TYPE_LONG G_TYPE_MAKE_FUNDAMENTAL(8)
#define G_TYPE_ULONG G_TYPE_MAKE_FUNDAMENTAL(9)
#define G_TYPE_INT64 G_TYPE_MAKE_FUNDAMENTAL(10)
#define G_TYPE_UINT64 G_TYPE_MAKE_FUNDAMENTAL(11)
#define G_TYPE_ENUM G_TYPE_MAKE_FUNDAMENTAL(12)
#define G_TYPE_FLAGS G_TYPE_MAKE_FUNDAMENTAL(13)
#define G_TYPE_FLOAT G_TYPE_MAKE_FUNDAMENTAL(14)
#define G_TYPE_DOUBLE G_TYPE_MAKE_FUNDAMENTAL(15)
#define G_TYPE_STRING G_TYPE_MAKE_FUNDAMENTAL(16)
#define G_TYPE_POINTER G_TYPE_MAKE_FUNDAMENTAL(17)
#define G_TYPE_BOXED G_TYPE_MAKE_FUNDAMENTAL(18)
#define G_TYPE_PARAM G_TYPE_MAKE_FUNDAMENTAL(19)
#define G_TYPE_OBJECT G_TYPE_MAKE_FUNDAMENTAL(20)
#define G_TYPE_VARIANT G_TYPE_MAKE_FUNDAMENTAL(21)
GType g_type_fundamental(GType); const gchar* g_type_name(GType); GType g_type_parent(GType); GType* g_type_interfaces(GType,guint*); GType* g_type_interface_prerequisites(GType,guint*); gpointer g_type_class_ref(GType); void g_type_class_unref(gpointer); gpointer g_type_default_interface_ref(GType); void g_type_default_interface_unref(gpointer); GType g_type_from_name(const gchar*); gboolean g_type_is_a(GType,GType); gboolean g_type_test_flags(GType,guint); guint g_type_depth(GType);
#define G_TYPE_FUNDAMENTAL(t) (g_type_fundamental(t))
#define G_TYPE_IS_ABSTRACT(t) (g_type_test_flags((t),16))
#define G_TYPE_IS_FINAL(t) (g_type_test_flags((t),64))
#define G_TYPE_IS_INSTANTIATABLE(t) (g_type_test_flags((t),2))
#define G_TYPE_CHECK_INSTANCE_CAST(i,t,c) ((c*)(i))
#define G_TYPE_CHECK_CLASS_CAST(k,t,c) ((c*)(k))
#define G_TYPE_CHECK_INSTANCE_TYPE(i,t) ((i)!=NULL)
#define G_TYPE_CHECK_CLASS_TYPE(k,t) ((k)!=NULL)
#define G_TYPE_INSTANCE_GET_CLASS(i,t,c) ((c*)(((GTypeInstance*)(i))->g_class))
#define G_OBJECT(o) ((GObject*)(o))
#define G_OBJECT_CLASS(k) ((GObjectClass*)(k))
#define G_VALUE_INIT {0,{{0}}}
#define G_VALUE_TYPE(v) (((GValue*)(v))->g_type)
#define G_VALUE_HOLDS_STRING(v) (G_VALUE_TYPE(v)==G_TYPE_STRING)
#define G_CCLOSURE_SWAP_DATA(c) (0)
#define G_ADD_PRIVATE(T)
#define G_DEFINE_TYPE_WITH_CODE(TN,t_n,T_P,C) static void t_n##_init(TN*); static void t_n##_class_init(TN##Class*); static gpointer t_n##_parent_class; static gint TN##_private_offset; static inline gpointer t_n##_get_instance_private(TN*s){return (gpointer)s;} GType t_n##_get_type(void){ (void)t_n##_init; (void)t_n##_class_init; (void)t_n##_get_instance_private; return 0; }
#define G_DEFINE_TYPE(TN,t_n,T_P) G_DEFINE_TYPE_WITH_CODE(TN,t_n,T_P,)
gpointer g_object_new(GType,const gchar*,...); void g_object_unref(gpointer); gpointer g_object_ref(gpointer);
GParamSpec** g_object_class_list_properties(GObjectClass*,guint*); GParamSpec** g_object_interface_list_properties(gpointer,guint*); const GValue* g_param_spec_get_default_value(GParamSpec*);
guint* g_signal_list_ids(GType,guint*); void g_signal_query(guint,GSignalQuery*);
void g_value_init(GValue*,GType); void g_value_unset(GValue*); const gchar* g_value_get_string(const GValue*); gboolean g_value_transform(const GValue*,GValue*); gchar* g_strdup_value_contents(const GValue*); gboolean g_value_type_transformable(GType,GType);
gint g_value_get_int(const GValue*); guint g_value_get_uint(const GValue*); gboolean g_value_get_boolean(const GValue*); gint64 g_value_get_int64(const GValue*); guint64 g_value_get_uint64(const GValue*); glong g_value_get_long(const GValue*); gulong g_value_get_ulong(const GValue*); gfloat g_value_get_float(const GValue*); gdouble g_value_get_double(const GValue*); gpointer g_value_get_pointer(const GValue*); gpointer g_value_get_boxed(const GValue*); gpointer g_value_get_object(const GValue*); gint g_value_get_enum(const GValue*); guint g_value_get_flags(const GValue*); gint8 g_value_get_schar(const GValue*); guchar g_value_get_uchar(const GValue*); GType g_value_get_gtype(const GValue*); gpointer g_value_get_param(const GValue*); gpointer g_value_get_variant(const GValue*); gchar g_value_get_char(const GValue*);
void g_value_set_int(GValue*,gint); void g_value_set_uint(GValue*,guint); void g_value_set_boolean(GValue*,gboolean); void g_value_set_int64(GValue*,gint64); void g_value_set_uint64(GValue*,guint64); void g_value_set_long(GValue*,glong); void g_value_set_ulong(GValue*,gulong); void g_value_set_float(GValue*,gfloat); void g_value_set_double(GValue*,gdouble); void g_value_set_pointer(GValue*,gpointer); void g_value_set_boxed(GValue*,gconstpointer); void g_value_set_object(GValue*,gpointer); void g_value_set_enum(GValue*,gint); void g_value_set_flags(GValue*,guint); void g_value_set_schar(GValue*,gint8); void g_value_set_uchar(GValue*,guchar); void g_value_set_string(GValue*,const gchar*); void g_value_set_gtype(GValue*,GType); void g_value_set_param(GValue*,gpointer); void g_value_set_variant(GValue*,gpointer); void g_value_take_string(GValue*,gchar*); void g_value_take_boxed(GValue*,gconstpointer); void g_value_take_object(GValue*,gpointer);
GType g_gtype_get_type(void); GType g_variant_get_gtype(void);
#define G_TYPE_GTYPE (g_gtype_get_type())
#endif

gpointer g_type_interface_peek(gpointer,GType); GType g_boxed_type_register_static(const gchar*,gpointer,gpointer);
#define g_clear_object(pp) do { if (*(pp)) { g_object_unref(*(pp)); *(pp)=NULL; } } while (0)
