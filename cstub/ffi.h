#pragma once
#include <stddef.h>
typedef struct _ffi_type { size_t size; unsigned short alignment; unsigned short type; struct _ffi_type **elements; } ffi_type;
extern ffi_type ffi_type_void, ffi_type_uint8, ffi_type_sint8, ffi_type_uint16, ffi_type_sint16, ffi_type_uint32, ffi_type_sint32, ffi_type_uint64, ffi_type_sint64, ffi_type_float, ffi_type_double, ffi_type_pointer, ffi_type_uint, ffi_type_sint, ffi_type_ulong, ffi_type_slong, ffi_type_uchar, ffi_type_schar, ffi_type_ushort, ffi_type_sshort;
typedef enum { FFI_OK=0, FFI_BAD_TYPEDEF, FFI_BAD_ABI } ffi_status; typedef enum { FFI_DEFAULT_ABI=2 } ffi_abi;
typedef struct { ffi_abi abi; unsigned nargs; ffi_type **arg_types; ffi_type *rtype; unsigned bytes; unsigned flags; } ffi_cif;
typedef struct { char tramp[24]; ffi_cif *cif; void (*fun)(ffi_cif*,void*,void**,void*); void *user_data; } ffi_closure;
typedef unsigned long ffi_arg; typedef long ffi_sarg;
#define FFI_TYPE_STRUCT 13
ffi_status ffi_prep_cif(ffi_cif*,ffi_abi,unsigned,ffi_type*,ffi_type**); void ffi_call(ffi_cif*,void(*)(void),void*,void**); void* ffi_closure_alloc(size_t,void**); void ffi_closure_free(void*); ffi_status ffi_prep_closure_loc(ffi_closure*,ffi_cif*,void(*)(ffi_cif*,void*,void**,void*),void*,void*);
