#include <glib.h>
