#include <glib.h>
