#include <glib.h>
