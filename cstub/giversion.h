/* Copyright (C) 2018 Christoph Reiter
 *
 * This library is free software; you can redistribute it and/or
 * modify it under the terms of the GNU Lesser General Public
 * License as published by the Free Software Foundation; either
 * version 2 of the License, or (at your option) any later version.
 *
 * This library is distributed in the hope that it will be useful,
 * but WITHOUT ANY WARRANTY; without even the implied warranty of
 * MERCHANTABILITY or FITNESS FOR A PARTICULAR PURPOSE.  See the GNU
 * Lesser General Public License for more details.
 *
 * You should have received a copy of the GNU Lesser General Public
 * License along with this library; if not, write to the
 * Free Software Foundation, Inc., 59 Temple Place - Suite 330,
 * Boston, MA 02111-1307, USA.
 */

#ifndef __GIVERISON_H__
#define __GIVERISON_H__

#if !defined (__GIREPOSITORY_H_INSIDE__) && !defined (GI_COMPILATION)
#error "Only <girepository.h> can be included directly."
#endif

G_BEGIN_DECLS

#define GI_MAJOR_VERSION 1
#define GI_MINOR_VERSION 80
#define GI_MICRO_VERSION 0

#define GI_CHECK_VERSION(major,minor,micro) \
    (GI_MAJOR_VERSION > (major) || \
     (GI_MAJOR_VERSION == (major) && GI_MINOR_VERSION > (minor)) || \
     (GI_MAJOR_VERSION == (major) && GI_MINOR_VERSION == (minor) && \
      GI_MICRO_VERSION >= (micro)))

GI_AVAILABLE_IN_1_60
guint gi_get_major_version (void) G_GNUC_CONST;
GI_AVAILABLE_IN_1_60
guint gi_get_minor_version (void) G_GNUC_CONST;
GI_AVAILABLE_IN_1_60
guint gi_get_micro_version (void) G_GNUC_CONST;

G_END_DECLS

#endif  /* __GIVERISON_H__ */
