#pragma once
#include <glib-object.h>
typedef struct _GFile GFile; typedef struct _GOutputStream GOutputStream; typedef struct _GFileOutputStream GFileOutputStream; enum { G_FILE_COPY_OVERWRITE=1, G_FILE_CREATE_NONE=0 };
GFile* g_file_new_for_path(const char*); GFileOutputStream* g_file_replace(GFile*,const char*,gboolean,int,gpointer,GError**); gboolean g_output_stream_write_all(gpointer,const void*,gsize,gsize*,gpointer,GError**); gboolean g_output_stream_close(gpointer,gpointer,GError**); gboolean g_file_copy(GFile*,GFile*,int,gpointer,gpointer,gpointer,GError**); gboolean g_file_delete(GFile*,gpointer,GError**);
#define G_OUTPUT_STREAM(o) ((GOutputStream*)(o))

gboolean g_file_move(GFile*,GFile*,int,gpointer,gpointer,gpointer,GError**);
