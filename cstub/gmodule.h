#pragma once
#include <glib.h>
typedef struct _GModule GModule; enum { G_MODULE_BIND_LAZY=1, G_MODULE_BIND_LOCAL=2 };
GModule* g_module_open(const gchar*,int); gboolean g_module_symbol(GModule*,const gchar*,gpointer*); gboolean g_module_close(GModule*); const gchar* g_module_error(void); gboolean g_module_supported(void);
