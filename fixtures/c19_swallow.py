# positive control: a bare handler that would swallow SystemExit (must be matched once)
def f():
    try:
        g()
    except:
        pass
