# positive control for the C20.R4 who-may-call matcher: must match two sites
def bad(writer):
    writer.push_tag('a')
    writer.pop_tag()
